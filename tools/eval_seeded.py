#!/venv/bin/python
"""Evaluate one seeded change: apply patch to /repo, confirm pinned tests pass and the
demo fails, run the property's check (and optionally every check), undo the patch,
confirm the demo passes on the clean tree.  Never leaves /repo modified.

usage: tools/eval_seeded.py <seeded-dir> [--all] [--tier quick|thorough]
"""
import json
import os
import subprocess
import sys
import time

VERIF = os.path.dirname(os.path.dirname(os.path.abspath(__file__)))
REPO = "/repo"


def sh(cmd, timeout=3000, env=None):
    e = dict(os.environ)
    if env:
        e.update(env)
    try:
        r = subprocess.run(cmd, shell=True, capture_output=True, text=True, timeout=timeout, env=e)
        return r.returncode, r.stdout + r.stderr
    except subprocess.TimeoutExpired:
        return 124, "TIMEOUT"


def run_demo(d):
    demo = os.path.join(d, "demo.py")
    return sh(f"cd {d} && TREE={REPO} PYTHONPATH={REPO}/src /venv/bin/python {demo}", timeout=600)


def main():
    d = os.path.abspath(sys.argv[1])
    run_all = "--all" in sys.argv
    tier = "thorough" if "thorough" in sys.argv else "quick"
    meta = json.load(open(os.path.join(d, "meta.json")))
    prop = meta["property"]
    patch = os.path.join(d, "patch.diff")
    out = {"dir": d, "property": prop}
    rc, o = sh(f"git -C {REPO} status --porcelain")
    if o.strip():
        print("REFUSING: /repo is not clean:", o)
        return 2
    rc, o = sh(f"git -C {REPO} apply --check {patch}")
    if rc != 0:
        print("patch does not apply:", o)
        return 2
    try:
        sh(f"git -C {REPO} apply {patch}")
        rc, o = sh(f"{VERIF}/tools/run_pinned_tests.sh")
        out["tests"] = o.strip().splitlines()[-1] if o.strip() else ""
        out["tests_ok"] = "missing 0" in o
        rc, o = run_demo(d)
        out["demo_with_patch_rc"] = rc
        out["demo_with_patch_tail"] = o.strip()[-300:]
        checks = [prop]
        if run_all:
            man = json.load(open(os.path.join(VERIF, "MANIFEST.json")))
            checks = [c["property_id"] for c in man["checks"]]
        out["checks"] = {}
        for c in checks:
            t = time.time()
            rc, o = sh(f"cd {VERIF} && ./check {c} --tier {tier}", timeout=3000)
            sigs = [l.strip() for l in o.splitlines() if l.strip().startswith("signature=")]
            out["checks"][c] = {"rc": rc, "wall": round(time.time() - t, 1), "signatures": sigs[:6],
                                "violations": sum(1 for l in o.splitlines() if l.startswith("VIOLATION"))}
    finally:
        sh(f"git -C {REPO} checkout -- .")
    rc, o = run_demo(d)
    out["demo_clean_rc"] = rc
    rc, o = sh(f"git -C {REPO} status --porcelain")
    out["repo_clean_after"] = not o.strip()
    print(json.dumps(out, indent=1))
    return 0


if __name__ == "__main__":
    sys.exit(main())
