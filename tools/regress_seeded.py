#!/venv/bin/python
"""Regression over every kept seeded change: each patch is applied to a scratch worktree of
/repo's HEAD (never to /repo), the property's own check is run against that worktree
(VERIF_REPO), and the verdict is recorded.  A seeded change counts as caught when the check
exits 1 with a VIOLATION line.  Worktrees are removed at the end.

usage: tools/regress_seeded.py [--workers N] [--tier quick|thorough] [--only PREFIX] [--full [--out NAME]]
  --full: also run the pinned tests and the demonstration with and without the change, and write
          seeded/<dir>/<NAME> (default result.json)
writes seeded/REGRESSION.json
"""
import json
import os
import subprocess
import sys
import time
from concurrent.futures import ThreadPoolExecutor

VERIF = os.path.dirname(os.path.dirname(os.path.abspath(__file__)))
REPO = "/repo"
SCRATCH = os.environ.get("VF_SCRATCH", "/var/tmp")
FULL = "--full" in sys.argv  # also run the pinned tests and the demonstration (with / without the change)
OUTNAME = "result.json"


def sh(cmd, timeout=3600, env=None):
    e = dict(os.environ)
    if env:
        e.update(env)
    try:
        r = subprocess.run(cmd, shell=True, capture_output=True, text=True, timeout=timeout, env=e,
                           stdin=subprocess.DEVNULL)
        return r.returncode, r.stdout + r.stderr
    except subprocess.TimeoutExpired:
        return 124, "TIMEOUT"


def arg(name, default):
    if name in sys.argv:
        return sys.argv[sys.argv.index(name) + 1]
    return default


def worker(k, dirs, tier):
    wt = os.path.join(SCRATCH, f"vf_reg_{os.getpid()}_{k}")
    rc, o = sh(f"git -C {REPO} worktree add --detach {wt} HEAD")
    if rc != 0:
        return [{"dir": d, "error": "worktree: " + o[-200:]} for d in dirs]
    out = []
    try:
        for d in dirs:
            meta = json.load(open(os.path.join(VERIF, "seeded", d, "meta.json")))
            prop = meta["property"][:3]
            patch = os.path.join(VERIF, "seeded", d, "patch.diff")
            rec = {"dir": d, "property": prop}
            rc, o = sh(f"git -C {wt} apply {patch}")
            if rc != 0:
                rc, o = sh(f"git -C {wt} apply --3way {patch}")
            if rc != 0:
                rec["error"] = "patch does not apply to HEAD: " + o.strip()[-200:]
                sh(f"git -C {wt} reset -q --hard; git -C {wt} clean -fdq")
                out.append(rec)
                continue
            if FULL:
                rc, o = sh(f"{VERIF}/tools/run_pinned_tests.sh {wt}")
                rec["tests"] = o.strip().splitlines()[-1] if o.strip() else ""
                rec["tests_ok"] = "missing 0" in o
                dd = os.path.join(VERIF, "seeded", d)
                rc, o = sh(f"cd {dd} && TREE={wt} PYTHONPATH={wt}/src /venv/bin/python demo.py", timeout=900)
                rec["demo_with_patch_rc"] = rc
                rec["demo_with_patch_tail"] = o.strip()[-300:]
            t = time.time()
            rc, o = sh(f"cd {VERIF} && ./check {prop} --tier {tier}", env={"VERIF_REPO": wt})
            rec.update(rc=rc, wall=round(time.time() - t, 1),
                       violations=sum(1 for l in o.splitlines() if l.startswith("VIOLATION")),
                       signatures=[l.strip() for l in o.splitlines() if l.strip().startswith("signature=")][:3],
                       caught=(rc == 1 and any(l.startswith("VIOLATION") for l in o.splitlines())))
            if rc not in (0, 1):
                rec["tail"] = o.strip()[-400:]
            sh(f"git -C {wt} reset -q --hard && git -C {wt} clean -fdq")
            if FULL:
                dd = os.path.join(VERIF, "seeded", d)
                rc, o = sh(f"cd {dd} && TREE={wt} PYTHONPATH={wt}/src /venv/bin/python demo.py", timeout=900)
                rec["demo_clean_rc"] = rc
                json.dump(rec, open(os.path.join(dd, OUTNAME), "w"), indent=1)
            out.append(rec)
            print(f"[{k}] {d}: rc={rc} caught={rec['caught']} {rec['wall']}s", flush=True)
    finally:
        sh(f"git -C {REPO} worktree remove --force {wt}")
        sh(f"git -C {REPO} worktree prune")
    return out


def main():
    n = int(arg("--workers", "4"))
    tier = arg("--tier", "quick")
    only = arg("--only", "")
    props = [p for p in arg("--props", "").split(",") if p]
    global OUTNAME
    OUTNAME = arg("--out", "result.json")
    dirs = sorted(d for d in os.listdir(os.path.join(VERIF, "seeded"))
                  if os.path.exists(os.path.join(VERIF, "seeded", d, "patch.diff")) and d.startswith(only))
    # changes that a later repair of /repo made harmless (their own demonstration passes with the
    # patch applied) are kept on disk but not counted
    superseded = [d for d in dirs if "superseded" in json.load(open(os.path.join(VERIF, "seeded", d, "meta.json")))]
    dirs = [d for d in dirs if d not in superseded]
    if props:
        dirs = [d for d in dirs if json.load(open(os.path.join(VERIF, "seeded", d, "meta.json")))["property"][:3] in props]
    # partition by property so that the same check never runs twice at once (evidence file)
    byprop = {}
    for d in dirs:
        p = json.load(open(os.path.join(VERIF, "seeded", d, "meta.json")))["property"][:3]
        byprop.setdefault(p, []).append(d)
    buckets = [[] for _ in range(n)]
    for i, (p, ds) in enumerate(sorted(byprop.items(), key=lambda kv: -len(kv[1]))):
        min(buckets, key=len).extend(ds)
    with ThreadPoolExecutor(n) as ex:
        res = [r for rs in ex.map(lambda kb: worker(kb[0], kb[1], tier), enumerate(buckets)) for r in rs]
    res.sort(key=lambda r: r["dir"])
    head = sh(f"git -C {REPO} rev-parse --short HEAD")[1].strip()
    summary = {"repo_head": head, "tier": tier, "superseded": superseded, "total": len(res),
               "caught": sum(1 for r in res if r.get("caught")),
               "not_caught": [r["dir"] for r in res if not r.get("caught")], "results": res}
    if not only and not props:
        json.dump(summary, open(os.path.join(VERIF, "seeded", "REGRESSION.json"), "w"), indent=1)
    print(json.dumps({k: v for k, v in summary.items() if k != "results"}, indent=1))
    return 0 if not summary["not_caught"] else 1


if __name__ == "__main__":
    sys.exit(main())
