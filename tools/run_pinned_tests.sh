#!/bin/sh
# run the pinned suite (of the tree given as $1, default /repo) and compare passes with BASELINE stable_pass
TREE="${1:-/repo}"
cd "$TREE" && PYTHONPATH="$TREE/src" /venv/bin/python -m pytest -ra -q -p no:cacheprovider --timeout=900 --continue-on-collection-errors --junitxml=/tmp/junit_$$.xml >/tmp/pytest_$$.log 2>&1
/venv/bin/python - <<PY
import json, xml.etree.ElementTree as ET
base=set(json.load(open('/root/.vp/BASELINE.json'))['stable_pass'])
t=ET.parse('/tmp/junit_$$.xml')
passed=set()
for tc in t.iter('testcase'):
    if not any(c.tag in ('failure','error','skipped') for c in tc):
        passed.add(tc.get('classname')+'::'+tc.get('name'))
missing=base-passed
print('passed',len(passed),'baseline',len(base),'missing',len(missing))
for m in sorted(missing)[:20]: print('  MISSING',m)
PY
rm -f /tmp/junit_$$.xml /tmp/pytest_$$.log
