#!/venv/bin/python
"""Regenerate /verif/MANIFEST.json from the table below (kept valid at all times)."""
import json, os, sys

HERE = os.path.dirname(os.path.dirname(os.path.abspath(__file__)))
PROPS = [json.loads(l)["id"] for l in open(os.path.join(HERE, "properties.jsonl"))]

# id -> (level category, technique, level text, level note, design ref)
CHECKS = {
 "C01": ("model_checking",
         "bounded-exhaustive small-scope enumeration of (message type, value, construction route) states with encode/decode/re-encode edges executed on the real codec",
         "All single-unit message types (every field kind x cardinality) with full boundary alphabets (incl. -0.0, non-UTC datetimes, numeric-looking string keys, hand-written classes that keep the .proto spelling as attribute name, lists of 130 / 17000 elements, maps of 130 entries, nesting depth 8), also declared with PEP 604 annotations, all unordered pairs of units with reduced alphabets and a recursive type to depth 2/3, each built by 4 routes (plus fresh-instance routes for empty messages in optional/oneof/repeated/map positions and a 'lazy' route that only reads sub-messages and never assigns them back) and pushed through bytes/parse/bytes; equality, oneof selection, None-ness, nested presence and byte stability are checked on every case. Exhaustive within the stated alphabets, silent about values outside them.",
         "trusts the abstract value model in vf/core/absval.py (cross-checked on every case against google.protobuf) and the value alphabets being branch-complete for the per-field interpreter",
         "DESIGN.md §4 C01"),
 "C02": ("model_checking",
         "bounded-exhaustive enumeration of (type, value) states in both directions against google.protobuf, plus breadth-first enumeration of every re-encoding reachable with <=D spec-level rewrite operators (legality decided by the reference decoder)",
         "Every universe case is encoded by betterproto and decoded by the reference and vice versa; for every single-unit type and value every alternative encoding within D rewrite operators (all permutations, packed/unpacked, every 2/3-way chunk split, mixed, non-minimal tag/length/value varints, 32-bit kinds carried in longer varints (missing sign extension, bits above bit 31, non-0/1 bools), default-valued key / value fields of map entries left out or spelled out, duplicated singular scalars, earlier oneof siblings, unknown records at every gap, the same inside nested messages and map entries) that the reference accepts as the same message is decoded by betterproto and compared (for types with oneofs also: a deep copy of the decoded message encodes alike and unselected members are unreadable).",
         "trusts google.protobuf (upb) as the reference decoder and the rewrite operators' completeness for the property's list of legal alternatives",
         "DESIGN.md §4 C02"),
 "C09": ("model_checking",
         "bounded-exhaustive small-scope enumeration of (type, value, route) states; len/dump/delimited-dump edges compared with bytes() and the wire model's varint",
         "Same universe as C01 plus messages decoded with unknown fields of every wire type; on every state len(m), dump(), dump(SIZE_DELIMITED) (into BytesIO and into a pre-filled write-only stream) and SerializeToString are compared with bytes(m); also after in-place growth following a first len()/dump.",
         "trusts the wire model's canonical varint (cross-checked against the reference in C16)",
         "DESIGN.md §4 C09"),
 "C16": ("model_checking",
         "exhaustive enumeration of a dense integer range plus every structured boundary integer, and of complete families of decoder byte strings, each compared three-way (wire model, google.protobuf internals, betterproto)",
         "All integers in a dense window (2^16 negatives .. 2^21, thorough 2^20 .. 2^24), every 2^k+d (k<=64, |d|<=16), byte-pattern values and the rejected domain below -2^63 go through encode/dump/size/decode/load; all byte strings of length <=2, all strings of length <=11 over {01,80,ff}, <=6 over six symbols and all 10-byte tails go through the decoders; every scalar kind x cardinality x boundary value is compared byte-for-byte with the reference encoder.",
         "the remainder of the 2^64 domain is argued structurally only; the property's 'randomly elsewhere' clause is replaced by the structured sweep (sampling is a different technique family)",
         "DESIGN.md §4 C16"),
 "C08": ("model_checking",
         "exhaustive enumeration of (newer schema, value, every subset of retained fields) states and of every sequence of <=2 unknown records at every gap, each decoded/re-encoded/decoded on the real codec and by google.protobuf",
         "Three five-field newer schemas spanning all wire types, packed, map, oneof, optional, nested and enum fields; all 32 older schemas of each; all reduced-alphabet values; plus all unknown-record sequences of length <=2 (6 field numbers x 4 wire types x payload shapes) at every gap of a known encoding. The unknown-record alphabet includes non-minimal tag/length/value encodings. Checks that known fields are undisturbed, unknown records are re-emitted byte-for-byte in order, the size-bounded load path gives the same result, and the newer reader and the reference recover the original message. Plus a field-number sweep (an unknown record of every number 1..70000 / 600000 and every 2^k boundary), nested-type evolution, and one instance decoding two inputs (24x24 pairs, parse/parse, two delimited loads, and decoding into a copy / deep copy without touching the original) against the reference's MergeFromString.",
         "trusts the wire model's tokenizer (validated against the reference on every case)",
         "DESIGN.md §4 C08"),
 "C10": ("fault_enumeration",
         "exhaustive enumeration of message sequences (length <=3 / <=4 over an 8-message alphabet) x reader schema x every cut point of the delimited stream x every schedule of <=2 short read() answers, replayed on the real dump/load",
         "Every sequence is written with dump(SIZE_DELIMITED), compared with the wire model's and the reference's length-prefixed framing, read by the reference, and read back with load(SIZE_DELIMITED) at every cut point 0..len: messages wholly before the cut must be returned intact with the stream positioned at their boundary, and a load that returns must return exactly the written message; the length prefix at every prefix-size boundary (19 sizes up to 2^21+1) must equal the reference framing. The uncut stream is also served by a reader that answers any <=2 of the multi-byte read / peek calls short (1 byte / all but one byte), by real io.BufferedReader objects of buffer size 1..13, by an io.RawIOBase object and by an io.FileIO on a pipe: every message must still be read back and nothing beyond it consumed.",
         "trusts google.protobuf.proto.serialize/parse_length_prefixed as the framing reference",
         "DESIGN.md §4 C10"),
 "C17": ("fault_enumeration",
         "complete enumeration of fault positions on valid encodings of every field kind x cardinality (truncations, tag/length byte corruptions, wire-type substitutions, groups, length perturbations, field 0) and of all short byte strings, judged by a schema-aware wire model and google.protobuf",
         "For three values of every single-unit type: every truncation point, every tag and length byte x {8 bit flips, 00, 7f, 80, ff}, a well-formed record of every non-fitting wire type before/after, groups, declared-length perturbations, ragged packed payloads, field number 0; truncation of payloads of 2^k-1..2^k+100 bytes (k in 7,14,16,17) at boundary windows; plus all byte strings up to length 2 (3 thorough) against 6 classes. Decoding must terminate; a returned message must be type-correct and re-encodable; inputs the model and the reference both call malformed must be rejected; mismatched wire types must be kept as unknown fields without altering known ones.",
         "the reference decoder is the arbiter of malformedness where it is more lenient than the wire model (e.g. inside skipped groups); agreement matrix is recorded in the evidence",
         "DESIGN.md §4 C17"),
 "C07": ("model_checking",
         "explicit-state breadth-first search to a fixpoint over the complete internal state of a real message under a finite operation alphabet, against a last-writer-wins reference model",
         "From every constructor (incl. the illegal two-member one) every operation of the alphabet (set each member to default/non-default, plain field, parse of every 0..2 member records in every order (and A, B, A within a group) into the live instance, instance/class from_dict, copy, deepcopy, pickle, reads) is applied in every reachable state until no new state appears; in every state which_one_of, AttributeError on siblings, the wire tokens and the to_dict keys are compared with the model; after every copy/deepcopy/pickle edge each member is assigned on the copy (and on the original) and the other message must be unaffected. Members: int32, string, enum, message, bool, Timestamp, Duration, wrapper in three groups declared interleaved; a second message declares its members the plugin's pydantic way (optional=True) with one single-member group. Covers all finite histories over the alphabet; on a tree that breaks the invariant the search stops after the first violating level.",
         "state key = full __dict__ (no abstraction); model = dict group -> last set member",
         "DESIGN.md §4 C07"),
 "C14": ("model_checking",
         "explicit-state breadth-first search to a fixpoint over the complete internal state of a real message; every observer and copy operation in every reachable state, edge invariant by differential replay",
         "82 initial states (13 values x constructor / setattr / in-place / parse / parse-with-unknown-fields / from_dict, plus lazily built ones whose parents were only ever read) x 27 observers (incl. == against messages with another oneof selection) and copy, deepcopy, pickle, closed under composition, plus ALL observer sequences of length <=2 (3) without state merging (hidden class-level state): on every edge the observable projection (bytes, values, presence, oneof, element types) must equal that of a separate replay without the operation; copies must be equal, byte-identical and (deep copies) independent under 12 mutators, including decoding further input into the copy; a scalar-only message decoded from 8 non-canonical encodings is observed and copied the same way.",
         "state key = full __dict__; one message class covering nested, optional, oneof, map-of-message, repeated, Timestamp, wrapper and enum fields",
         "DESIGN.md §4 C14"),
 "C15": ("model_checking",
         "complete enumeration of a structured finite domain of timedeltas and aware datetimes (boundary seconds x boundary microseconds x sign x UTC offsets, plus every microsecond of dense windows), each compared with google.protobuf and an integer model",
         "Every value is stored in optional and plain Timestamp/Duration fields, encoded, decoded by the reference ((seconds, nanos) must equal FromTimedelta/FromDatetime and be normalised), decoded back (identical value / same instant), mapped to JSON (must match the spec's lexical form and be read by the reference parser as the same value) and back from the reference's JSON; RFC 3339 input with numeric offsets (singular, repeated, map value) must be read as the instant the reference reads; every structured instant and the one half a year away also go through ONE shared tzinfo object whose offset depends on the date.",
         "values outside the enumerated domain (about 3e17 microsecond values) are argued structurally: integer arithmetic without further branch points",
         "DESIGN.md §4 C15"),
 "C19": ("model_checking",
         "exhaustive enumeration of all legal proto identifiers up to length 6 (7) over {a,b,A,B,0,1,_} plus keywords, builtins, the attribute names of Message in five spellings and a corpus, each pushed through the naming functions and a real one-field message class",
         "For every identifier the four pythonize_* functions must return valid non-keyword identifiers and be idempotent, and a real message class with the field named as the plugin would name it must map its camelCase key, its snake_case key and the original proto name back to the field through both forms of from_dict with the value intact; all pairs of identifiers (length <=4 / 5) that are equal up to case and underscores are also bound as two fields of ONE message and every key must reach its own field (where derived keys of the two fields coincide, each python field name must still reach its own field).",
         "alphabet of 7 characters; protoc's json_name is recorded, not required (not in the property's key list)",
         "DESIGN.md §4 C19"),
 "C20": ("model_checking",
         "exhaustive enumeration of all enum definitions with 1..3 members over 6 numbers (aliases included) and 3 member-name shapes and of all (field position, number) pairs, against a dict model",
         "All 258 number patterns x 3 member-name shapes (A/B/C, underscore-led names, names carrying the class name as prefix next to the bare name) are created with the real metaclass: lookup by number/name/attribute returns the one canonical member with the declared name and number; copy/deepcopy identity; pickle; openness (try_value) and closedness (call) for undefined numbers; every mutation attempt on class and members (member names, new names, internal tables, dunder names) raises and leaves behaviour unchanged. Every defined/undefined number in singular, optional, oneof, repeated and map-value position survives binary and JSON round trips in both casings, also through classes the plugin generates with and without pydantic_dataclasses.",
         "definitions limited to 3 members over 6 numbers; plugin-generated enums are covered by C03",
         "DESIGN.md §4 C20"),
 "C04": ("model_checking",
         "bounded-exhaustive small-scope enumeration of (type, value, route) states; to_dict / json.dumps / from_dict edges over 2 casings x {dict, text} x {classmethod, instance}",
         "Every universe case is rendered with to_dict in both casings, serialised with json.dumps, and read back through all four from_dict forms; the result must be equal to m, project to the same abstract value and encode to the same bytes. Single-unit, named-field, kitchen-sink and recursive types are run a second time declared with PEP 604 / builtin-generic annotations (what the plugin writes under typing.310).",
         "universe and alphabets as C01",
         "DESIGN.md §4 C04"),
 "C05": ("model_checking",
         "bounded-exhaustive small-scope enumeration of (type, value) states in both directions against google.protobuf.json_format, plus lexical clauses checked by a JSON model that is validated against the reference on every case",
         "betterproto's to_json is parsed by json_format.Parse and compared; json_format.MessageToJson - with default options and with preserving_proto_field_name, use_integers_for_enums, always_print_fields_with_no_presence - is parsed by from_json and compared (values and Python types); enum fields holding a member of another enum class with the same number must print the field enum's name; to_dict output is checked against the mapping's lexical rules (json names, 64-bit as strings, base64, enum names, non-finite floats, RFC 3339 / decimal seconds).",
         "trusts google.protobuf.json_format as the reference of the canonical mapping",
         "DESIGN.md §4 C05"),
 "C06": ("model_checking",
         "bounded-exhaustive small-scope enumeration of the presence matrix (field kind x never-set/default/non-default x construction route incl. parse and from_dict), alone and in pairs, judged by wire tokens and the reference's HasField/WhichOneof",
         "Fresh messages read proto3 defaults and encode to nothing; on every state the set of field numbers on the wire must equal the set of fields the value model calls set, betterproto's own presence report (is None, is_set, which_one_of, serialized_on_wire) must agree, and after decoding it must equal the reference's HasField/WhichOneof on the same bytes.",
         "universe and alphabets as C01; JSON-model dicts for the from_dict route are validated against json_format",
         "DESIGN.md §4 C06"),
 "C12": ("model_checking",
         "stateless depth-first exploration of all event-loop schedules (exact-asyncio semantics: FIFO iterations; continue/yield/park at driver points; release and timer firing at iteration boundaries) of small AsyncChannel configurations on the real asyncio.Queue/Task/wait_for under a virtual loop, with iterative deviation bounding",
         "40+ configurations (1-2 senders x 1-3 items via send / send_from / async sources, 1-3 receivers via receive(), async-for and the library's ServiceStub._send_messages, closer (as a task or as a plain loop callback), channel created inside or before the loop, unbounded and bounded buffers, every other item falsy, a task polling closed()/done(), cancellation or timeout of one receiver at any point). The small ones are enumerated completely, the rest up to a stated number of deviations from the default schedule. Every complete execution is judged: nothing invented or duplicated, per-sender order, everything sent before close received exactly once (or obtainable by a fresh receiver after a cancellation), no stranded receiver, later sends rejected, cancellation/timeout surfacing as such, no stray exception.",
         "schedules a real FIFO asyncio loop cannot produce are excluded by construction; OS threads are out of scope",
         "DESIGN.md §4 C12"),
 "C03": ("translation_validation",
         "exhaustive enumeration of schemas from a grammar (every field kind x cardinality and all pairs; every structure atom alone and all pairs of atoms; 4 package depths) plus the tests/inputs corpus, each compiled by protoc + the plugin from the working tree (also with only ONE file of a multi-file program named on the protoc command line), imported, and compared field by field with the FileDescriptorSet protoc emits (read with google.protobuf's descriptor_pb2)",
         "Per program: plugin exit status, importability, every generated message class constructed / encoded / decoded / dict-converted, one class per message/enum (nested included), one field per schema field with equal number, proto type, cardinality from the resolved type hints, map key/value types, oneof group, optional flag, wrapper/Timestamp/Duration mapping, resolved class identity of references, enum numbers; generated classes are additionally compared with classes built through the public field API (same metadata, same bytes), which transfers the small-scope results to generated code. The bundled descriptor / well-known-type / plugin classes are compared with descriptor.proto, plugin.proto and the WKT descriptors on every shared field.",
         "proto3 only; ruff replaced by an identity shim; class names are located with the implementation's naming function",
         "DESIGN.md §4 C03"),
 "C13": ("exploration",
         "exhaustive enumeration of package topologies: every ordered pair of the 15 package paths of depth 0..3 over {a,b} (each compiled alone), 7 packages whose names are textual prefixes of a neighbour or live under google.* against 5 partners, all packages referencing each other at once, and well-known types from every depth, compiled with the real plugin, imported, and checked by class identity",
         "For every program the resolved type hint of each referring field (singular, repeated, map value, oneof member) and each rpc handler's request/reply type must BE the class generated for the target (message, nested message, enum, nested enum, types nested in a lower-case-led message such as iOSDevice) - also when the referrer has plain fields named like the module aliases of the target -, a message built through the references must round-trip through the wire and JSON, referrers whose only references are rpc input/output types must work through __mapping__ and real calls, and well-known types must resolve to the bundled classes.",
         "package path alphabet {a,b}; the schedule/import order is the natural one",
         "DESIGN.md §4 C13"),
 "C18": ("translation_validation",
         "exhaustive enumeration of option sets (3 typing modes x std/pydantic) x schemas (every structure atom, an everything-schema, cross-package programs; all atom pairs in the thorough tier), each compiled with the real plugin, imported and compared with the default configuration",
         "Every variant must import; class sets, field numbers, proto types, map types, oneof groups, wrapper mapping, enum members and generated service classes must equal the default configuration's; a deterministic sample value of every message class (derived from metadata and resolved hints) must encode to identical bytes and identical JSON under all six configurations; packages that import each other in a cycle (three shapes) must be importable in every order under every configuration.",
         "pydantic oneof members are Optional by design and are compared modulo that",
         "DESIGN.md §4 C18"),
 "C11": ("exploration",
         "exhaustive enumeration of (method, request tuple, response-stream length, source kind, handler outcome) and of all 64 stub-level/call-level timeout/deadline/metadata combinations, each executed as a real rpc through the generated stub, grpclib's in-process channel and the generated server base",
         "Services generated by the real plugin cover all four cardinalities, re-cased method names, cross-package, nested and well-known request/response types and a second service sharing a method name. For every case exactly one handler - the right one - must run with requests equal and in order, the caller must receive the responses equal and in order, a method that is not overridden must answer UNIMPLEMENTED, a handler's GRPCError status and message must reach the caller, 400 x 40 kB each way must pass through every streaming cardinality, a ping-pong conversation over a bidirectional stream must not be held back, deprecated rpcs must work, three calls on ONE stub 3000 s apart (fake clock inside grpclib.metadata) must each get the full stub-level timeout and the shrinking stub-level deadline, of two calls in flight on one stub the survivor of a cancellation must finish intact, and the server must observe exactly the metadata pairs (mapping, pairs, pairs with a repeated key and a -bin value) and the deadline the precedence rule (call-level over stub-level) predicts.",
         "natural asyncio schedule; deadline observed as time remaining with a 20 s tolerance (configured deadlines 50 s .. 10000 s)",
         "DESIGN.md §4 C11"),
}

NOT_APPLICABLE_REASON = "not claimed"

def main():
    checks = []
    for pid in PROPS:
        if pid not in CHECKS:
            continue
        cat, tech, text, note, ref = CHECKS[pid]
        checks.append({
            "property_id": pid,
            "quick_cmd": f"./check {pid} --tier quick",
            "thorough_cmd": f"./check {pid} --tier thorough",
            "evidence_file": f"/verif/evidence/{pid}.json",
            "replay_cmd_template": f"./check {pid} --replay {{path}}",
            "engine": "vf",
            "level_claimed": {"category": cat, "text": text, "design_ref": ref},
            "level_note": note,
            "technique": tech,
        })
    man = {
        "version": 1,
        "setup_cmd": "chmod +x /verif/check /verif/tools/bin/ruff /verif/tools/*.sh && /venv/bin/python -c \"import betterproto, google.protobuf, grpclib, grpc_tools\"",
        "hooks": {
            "guard": "BETTERPROTO_VERIF",
            "enable": "no hooks are needed: every observation point is public API or plain attribute state; ./check exports BETTERPROTO_VERIF=1 for uniformity",
            "baseline_off_cmd": "cd /repo && /venv/bin/python -m pytest -ra -q -p no:cacheprovider --timeout=900 --continue-on-collection-errors",
            "source_commits": [],
            "add_only": True,
        },
        "engines": [
            {"name": "vf", "path": "/verif/vf", "serves_properties": sorted(CHECKS),
             "kind_free_text": "hand-written explicit-state / small-scope / schedule / fault explorers driving the real betterproto code, with google.protobuf and a spec-level wire model as oracles"},
        ],
        "checks": checks,
        "not_applicable": [
            {"property_id": p, "reason": NOT_APPLICABLE_REASON} for p in PROPS if p not in CHECKS
        ],
        "notes": "All checks import betterproto from /repo/src (working tree). Exit 0 = held (KNOWN-FINDING lines possible), 1 = VIOLATION, 2 = harness error.",
    }
    with open(os.path.join(HERE, "MANIFEST.json"), "w") as fh:
        json.dump(man, fh, indent=1)
    print("MANIFEST.json:", len(checks), "checks,", len(man["not_applicable"]), "not_applicable")

if __name__ == "__main__":
    main()
