from __future__ import annotations

import argparse
import importlib
import json
import os
import sys
import traceback

from vf.core.runner import Ctx, HarnessError, Violation


def main(argv=None) -> int:
    ap = argparse.ArgumentParser()
    ap.add_argument("prop")
    ap.add_argument("--tier", default=os.environ.get("VERIF_TIER", "quick"),
                    choices=["quick", "thorough"])
    ap.add_argument("--replay")
    args = ap.parse_args(argv)
    prop = args.prop.upper()
    try:
        seed = int(os.environ.get("VERIF_SEED", "0") or 0)
    except ValueError:
        seed = 0
    mod = importlib.import_module(f"vf.checks.{prop.lower()}")
    try:
        if args.replay:
            with open(args.replay) as fh:
                rep = json.load(fh)
            vs = mod.replay(rep["case"])
            if vs:
                for v in vs:
                    print(f"VIOLATION property={prop} replay={args.replay}")
                    print(f"  signature={v.signature}")
                    print(f"  what={v.what}")
                return 1
            print(f"[{prop}] replay: property holds on this case")
            return 0
        ctx = Ctx(prop, args.tier, seed, mod.LEVEL)
        ctx.replay_fn = getattr(mod, "replay", None)
        mod.run(ctx)
        return ctx.finish()
    except HarnessError as e:
        print(f"HARNESS-ERROR property={prop}: {e}", file=sys.stderr)
        return 2
    except Exception:
        traceback.print_exc()
        print(f"HARNESS-ERROR property={prop}: unexpected exception", file=sys.stderr)
        return 2


if __name__ == "__main__":
    sys.exit(main())
