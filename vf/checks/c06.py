"""C06 proto3 defaults and field presence are encoded and recovered correctly."""
from __future__ import annotations

from typing import Any, Dict, List, Set

import betterproto

from vf.core import absval as av
from vf.core import jsonmodel, wire
from vf.core.runner import Ctx, HarnessError, Tally
from vf.core.schema import Msg
from vf.core.smallscope import Fail, hkey, replay_case, run_universe
from vf.core.universe import TypeCase, Universe, fresh_variant, get_universe

LEVEL = "model_checking"
ROUTES = ("fresh", "ctor", "setattr", "inplace", "parse", "from_dict")


def _nan_or_negzero(v) -> bool:
    """NaN and -0.0 are not the default 0.0 of a float field although one is unequal to itself and
    the other compares equal to 0.0 (the reference sends both)."""
    import math
    return isinstance(v, float) and (v != v or (v == 0 and math.copysign(1.0, v) < 0))


def default_of(u: Universe, f):
    if f.card == "repeated":
        return []
    if f.card == "map":
        return {}
    if f.card == "optional" or f.base == "wrap":
        return None
    if f.base == "msg":
        return "MSG"
    if f.base == "timestamp":
        return av.EPOCH
    if f.base == "duration":
        return av.timedelta(0)
    return av.scalar_default(f.kind)


def bp_presence(u: Universe, m: Msg, msg) -> Dict[str, bool]:
    """What betterproto's own API reports as set."""
    rep: Dict[str, bool] = {}
    selected = {g: betterproto.which_one_of(msg, g)[0] for g in m.groups}
    for f in m.fields:
        if f.card == "oneof":
            rep[f.name] = selected[f.group] == f.name
            continue
        v = getattr(msg, f.name)
        if f.card in ("repeated", "map"):
            rep[f.name] = len(v) > 0
        elif f.card == "optional":
            rep[f.name] = v is not None
            if msg.is_set(f.name) != rep[f.name]:
                rep[f.name + "#is_set"] = msg.is_set(f.name)
        elif f.base == "wrap":
            rep[f.name] = v is not None
        elif f.base == "msg":
            rep[f.name] = betterproto.serialized_on_wire(v)
        else:
            d = default_of(u, f)
            rep[f.name] = not (v == d) or _nan_or_negzero(v)
    return rep


def ref_presence(u: Universe, m: Msg, ref) -> Dict[str, bool]:
    rep: Dict[str, bool] = {}
    for f in m.fields:
        if f.card == "oneof":
            rep[f.name] = ref.WhichOneof(f.group) == f.pname
        elif f.card in ("repeated", "map"):
            rep[f.name] = len(getattr(ref, f.pname)) > 0
        elif f.card == "optional" or f.base in ("wrap", "msg"):
            rep[f.name] = ref.HasField(f.pname)
        elif f.base in ("timestamp", "duration"):
            x = getattr(ref, f.pname)
            rep[f.name] = ref.HasField(f.pname) and (x.seconds != 0 or x.nanos != 0)
        else:
            v = getattr(ref, f.pname)
            rep[f.name] = not (v == default_of(u, f)) or _nan_or_negzero(v)
    return rep


def oracle(u: Universe, tc: TypeCase, aval: Dict[str, Any], route: str, tally: Tally) -> List[Fail]:
    if route.endswith("@604"):
        # the same type declared with PEP 604 / builtin-generic annotations (plugin option typing.310)
        u, route = u.view604(), route[:-4]
    m = tc.msg
    cls = getattr(u.bp, m.name)
    fails: List[Fail] = []
    if route == "fresh":
        if aval:
            return []
        try:
            msg = cls()
            for f in m.fields:
                if f.card == "oneof":
                    continue
                v = getattr(msg, f.name)
                d = default_of(u, f)
                if d == "MSG":
                    ok = isinstance(v, betterproto.Message) and not betterproto.serialized_on_wire(v) and bytes(v) == b""
                else:
                    ok = v == d and type(v) is type(d) or (d is None and v is None)
                    if f.base == "enum" and f.card == "single":
                        ok = int(v) == 0
                if not ok:
                    fails.append(("fresh-default", f"fresh {m.name}.{f.name} reads {v!r}, proto3 default is {d!r}"))
            for g in m.groups:
                if betterproto.which_one_of(msg, g) != ("", None):
                    fails.append(("fresh-default", f"fresh message has oneof {g} selected"))
            if bytes(msg) != b"" or bytes(cls()) != b"":
                fails.append(("fresh-bytes", f"fresh message encodes to {bytes(msg).hex()}"))
            tally.inc("edges", 2)
        except Exception as e:
            fails.append(("fresh-default", f"{type(e).__name__}: {e}"[:200]))
        return fails
    exp = av.normalize(u.schema, m, aval)
    try:
        if route == "parse":
            data = av.make_ref(u.schema, u.ref, m, aval).SerializeToString()
            msg = cls().parse(data)
        elif route == "from_dict":
            d = jsonmodel.to_json_dict(u.schema, m, aval)
            chk = u.ref.cls(m.name)()
            from google.protobuf import json_format
            try:
                json_format.ParseDict(d, chk)
            except json_format.ParseError as e:
                raise HarnessError(f"reference rejects the JSON model's dict {d!r}: {e}")
            if not av.aval_eq(av.project_ref(u.schema, m, chk), exp):
                raise HarnessError(f"JSON model disagrees with the reference on {m.name} {aval!r}")
            msg = cls().from_dict(d)
        else:
            msg = av.make_bp(u.bp, u.schema, m, aval, route)
        tally.inc("edges")
    except HarnessError:
        raise
    except Exception as e:
        return [("build", f"{type(e).__name__}: {e}"[:200])]
    want_set = {f.name: (f.name in exp) for f in m.fields}
    try:
        rep = bp_presence(u, m, msg)
        data = bytes(msg)
        tally.inc("edges")
    except Exception as e:
        return [("observe", f"{type(e).__name__}: {e}"[:200])]
    for f in m.fields:
        if rep.get(f.name) != want_set[f.name]:
            fails.append(("presence-report", f"{f.name}: betterproto reports set={rep.get(f.name)}, value model says {want_set[f.name]}"))
        if f.name + "#is_set" in rep:
            fails.append(("is_set", f"{f.name}: is_set() disagrees with 'is not None'"))
    try:
        recs = wire.tokenize(data)
    except wire.WireError as e:
        return fails + [("malformed-output", str(e))]
    on_wire: Set[int] = {r.number for r in recs}
    for f in m.fields:
        if (f.number in on_wire) != want_set[f.name]:
            what = "emitted although unset/default" if f.number in on_wire else "not emitted although set"
            fails.append(("emission", f"{f.name} (#{f.number}) {what}; bytes={data.hex()[:60]}"))
    try:
        r = u.ref.cls(m.name).FromString(data)
        tally.inc("edges")
        rp = ref_presence(u, m, r)
        back = cls().parse(data)
        tally.inc("edges")
        rep2 = bp_presence(u, m, back)
        for f in m.fields:
            if rep2.get(f.name) != rp[f.name]:
                fails.append(("presence-vs-reference", f"{f.name}: after decoding, betterproto reports set={rep2.get(f.name)}, reference HasField/WhichOneof={rp[f.name]}; bytes={data.hex()[:60]}"))
    except Exception as e:
        fails.append(("reference", f"{type(e).__name__}: {e}"[:200]))
    tally.mark("outcomes", hkey(m.name, data))
    seen, out = set(), []
    for n, dd in fails:
        if n not in seen:
            seen.add(n)
            out.append((n, dd))
    return out


def oracle_routed(u, tc, aval, route, tally):
    """Failures on the from_dict route are named json:<oracle> so that findings about
    the JSON decoder never mask the binary routes."""
    fails = oracle(u, tc, aval, route, tally)
    if route.startswith("from_dict"):
        return [("json:" + n, d) for n, d in fails]
    return fails


def routes_fn(tc, aval):
    r = ROUTES
    if fresh_variant(tc.msg, aval):
        r = r + ("ctor_fresh", "setattr_fresh")
    if tc.tag in ("T1", "KS", "TN", "REC"):
        r = r + ("fresh@604", "ctor@604", "setattr@604", "parse@604", "from_dict@604")
    return r


# ---------------------------------------------------------------------------
# depth-2 presence through lazily created sub-messages (the README's `m.a.b.c = v` idiom)

def nested_inplace(ctx: Ctx) -> int:
    """All assignment sequences of length <= 2 inside G{P p}, P{Sub sub; int32 v}, Sub{a, s}
    through lazily created sub-messages; emission must match serialized_on_wire at every
    level and the reference's HasField on the same bytes."""
    import itertools
    from vf.core.runner import Violation
    from vf.core.schema import Field, Msg, Schema, build_bp, build_ref
    from vf.core.universe import LIB_MSGS, COLOR

    schema = Schema("vfc06n", (COLOR,), LIB_MSGS + (
        Msg("P", (Field("sub", 1, "msg:Sub"), Field("v", 2, "int32"))),
        Msg("G", (Field("p", 1, "msg:P"), Field("w", 2, "int32"))),
    ))
    bp = build_bp(schema, "vf_c06_nested")
    ref = build_ref(schema)
    ops = [("p.sub.a", 0), ("p.sub.a", 1), ("p.sub.s", ""), ("p.sub.s", "x"), ("p.v", 0), ("p.v", 1),
           ("w", 1), ("read:p", None), ("read:p.sub", None), ("read:p.sub.a", None)]
    n = 0
    for ln in (1, 2, 3):
        for seq in itertools.product(range(len(ops)), repeat=ln):
            if ln == 3 and not (ops[seq[0]][0].startswith("read") or ops[seq[2]][0].startswith("read")):
                continue
            n += 1
            g = bp.G()
            assigned = set()
            for i in seq:
                path, val = ops[i]
                parts = path.replace("read:", "").split(".")
                cur = g
                for part in parts[:-1]:
                    cur = getattr(cur, part)
                if path.startswith("read:"):
                    getattr(cur, parts[-1])
                else:
                    setattr(cur, parts[-1], val)
                    assigned.add(path)
            data = bytes(g)
            r = ref.cls("G").FromString(data)
            want_p = any(a.startswith("p.") for a in assigned)
            want_sub = any(a.startswith("p.sub.") for a in assigned)
            got = {
                "p.on_wire": r.HasField("p"), "p.sow": betterproto.serialized_on_wire(g.p),
                "sub.on_wire": r.HasField("p") and r.p.HasField("sub"),
                "sub.sow": betterproto.serialized_on_wire(g.p.sub),
            }
            label = [ops[i][0] + ("" if ops[i][1] is None else "=" + repr(ops[i][1])) for i in seq]
            probs = []
            if got["p.on_wire"] != got["p.sow"]:
                probs.append(("nested-emission-vs-serialized_on_wire", "p"))
            if got["sub.on_wire"] != got["sub.sow"]:
                probs.append(("nested-emission-vs-serialized_on_wire", "p.sub"))
            # (the property's criterion is emission <=> serialized_on_wire; whether an assignment
            #  two levels down should also mark the intermediate message is not demanded)
            if got["p.on_wire"] and not want_p:
                probs.append(("nested-emitted-unassigned", "p"))
            if got["sub.on_wire"] and not want_sub:
                probs.append(("nested-emitted-unassigned", "p.sub"))
            for oracle, level in probs:
                depth = "depth2" if level == "p.sub" or any(a.startswith("p.sub.") for a in assigned) else "depth1"
                ctx.add(Violation([oracle, level, depth, "default-only" if all(ops[i][1] in (0, "", None) for i in seq) else "non-default"],
                                  f"G(): {label}: {got}, assigned inside p: {want_p}, inside p.sub: {want_sub}; bytes={data.hex()}",
                                  {"nested_inplace": [list(ops[i]) for i in seq]}))
    return n


def run(ctx: Ctx) -> None:
    u = get_universe(ctx.tier)
    u.view604()  # built before the workers fork
    t = run_universe(ctx, u, oracle_routed, routes_fn)
    nested_cases = nested_inplace(ctx)
    ctx.coverage.update(
        states=t.n.get("cases", 0),
        transitions=t.n.get("edges", 0),
        traces_validated_against_impl=t.n.get("cases", 0),
        exhaustive=True,
        message_types=len(u.types),
        abstract_values=u.count(),
        routes=list(ROUTES),
        nested_inplace_sequences=nested_cases,
        distinct_encodings=len(t.sets.get("outcomes", ())),
        failures_explained_by_restriction=t.n.get("failures_explained_by_restriction", 0),
        samples=t.samples,
        rule="state = (type, value incl. never-set / set-to-default / non-default per field, route); "
             "checks: fresh defaults, emission iff set (wire tokens), betterproto's presence report "
             "(is None / is_set / which_one_of / serialized_on_wire) vs the value model and vs the "
             "reference's HasField/WhichOneof on the same bytes",
    )
    ctx.assumptions += [
        "value alphabets as C01; a present-but-empty sub-message is made present by assigning a default inside it",
        "plain Timestamp/Duration fields: epoch/zero == unset (no presence in betterproto's mapping)",
    ]


def replay(case: dict):
    if "nested_inplace" in case:
        # re-run the (tiny) nested exploration and return what it reports for this sequence
        from vf.core.runner import Ctx as _C
        c = _C("C06", "quick", 0, LEVEL)
        c.findings = []
        nested_inplace(c)
        return [v for v in c.violations if v.case == case]
    return replay_case(oracle_routed, case, get_universe)
