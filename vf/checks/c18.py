"""C18 every supported plugin option yields importable, behaviourally identical code.

Configurations: {typing.direct, typing.root, typing.310} x {std, pydantic dataclasses}.
Programs: every structure atom (incl. services of all four cardinalities, optional, maps,
well-known types), the cross-package program of C13, and (thorough) all atom pairs.
"""
from __future__ import annotations

import dataclasses
import itertools
import typing
from datetime import datetime, timedelta, timezone
from typing import Any, Dict, List, Optional, Tuple

import betterproto

from vf.core import atoms as AT
from vf.core import plugin
from vf.core.descmatch import resolve_hints
from vf.core.runner import Ctx, HarnessError, Tally, Violation, merge_tallies, pmap_shards
from vf.checks import c13

LEVEL = "translation_validation"
VARIANTS: List[Tuple[str, List[str]]] = [
    ("direct", []),
    ("root", ["typing.root"]),
    ("310", ["typing.310"]),
    ("direct+pydantic", ["pydantic_dataclasses"]),
    ("root+pydantic", ["typing.root", "pydantic_dataclasses"]),
    ("310+pydantic", ["typing.310", "pydantic_dataclasses"]),
]
_W: Dict[str, Any] = {}


def describe_module(mod) -> Dict[str, Any]:
    """Schema-level description of a generated module (what must not depend on options)."""
    out: Dict[str, Any] = {"messages": {}, "enums": {}, "services": []}
    for name, obj in sorted(vars(mod).items()):
        if not isinstance(obj, type) or obj.__module__ != mod.__name__:
            continue
        if issubclass(obj, betterproto.Message):
            fs = {}
            for f in dataclasses.fields(obj):
                m = f.metadata["betterproto"]
                fs[f.name] = [m.number, m.proto_type, list(m.map_types) if m.map_types else None, m.group, m.wraps]
            out["messages"][name] = fs
        elif issubclass(obj, betterproto.Enum):
            out["enums"][name] = sorted((k, int(v)) for k, v in obj.__members__.items())
        elif issubclass(obj, betterproto.ServiceStub) or name.endswith("Base"):
            out["services"].append(name)
    return out


def optional_flags(mod) -> Dict[str, bool]:
    out = {}
    for name, obj in vars(mod).items():
        if isinstance(obj, type) and obj.__module__ == mod.__name__ and issubclass(obj, betterproto.Message):
            for f in dataclasses.fields(obj):
                m = f.metadata["betterproto"]
                out[f"{name}.{f.name}"] = (bool(m.optional), m.group)
    return out


DT = datetime(2001, 2, 3, 4, 5, 6, 789000, tzinfo=timezone.utc)


SIGNED = ("int32", "int64", "sint32", "sint64", "sfixed32", "sfixed64")
SAMPLE_VARIANTS = ("base", "zero", "neg")


def sample_value(cls, fname: str, meta, hint, depth: int, variant: str = "base"):
    """A deterministic value for one field, from metadata and type hints only.
    base: non-default values; zero: explicit defaults; neg: negative / lowest values."""
    def elem(pt: str, h):
        if pt in ("int32", "int64", "uint32", "uint64", "sint32", "sint64", "fixed32", "fixed64", "sfixed32", "sfixed64"):
            if variant == "zero":
                return 0
            if variant == "neg":
                return -1 if pt in SIGNED else 1
            return 7
        if pt in ("float", "double"):
            return 0.0 if variant == "zero" else (-1.5 if variant == "neg" else 1.5)
        if pt == "bool":
            return variant == "base"
        if pt == "string":
            return "" if variant == "zero" else "s"
        if pt == "bytes":
            return b"" if variant == "zero" else b"b"
        if pt == "enum":
            if not isinstance(h, type):
                return 0 if variant == "zero" else 1
            if variant == "zero":
                return h.try_value(0)
            if variant == "neg":
                return h.try_value(min(int(x) for x in h.__members__.values()))
            return h.try_value(1)
        if pt == "message":
            if h is datetime:
                return DT if variant != "zero" else datetime(1970, 1, 1, tzinfo=timezone.utc)
            if h is timedelta:
                return timedelta(0) if variant == "zero" else (timedelta(seconds=-3, microseconds=-500) if variant == "neg" else timedelta(seconds=3, microseconds=500))
            if meta.wraps:
                return elem(meta.wraps, None)
            if isinstance(h, type) and issubclass(h, betterproto.Message):
                return sample_instance(h, depth - 1, variant) if depth > 0 else h()
        return None

    origin = typing.get_origin(hint)
    if meta.proto_type == "map":
        ka, va = typing.get_args(hint)
        kt, vt = meta.map_types
        k = elem(kt, ka)
        if vt == "message" and not (isinstance(va, type) and issubclass(va, betterproto.Message)):
            return None  # maps of wrappers / times are a known-broken corner (see C01)
        v = elem(vt, va)
        return None if v is None else {k: v}
    inner = hint
    if origin is list:
        inner = typing.get_args(hint)[0]
    args = [a for a in typing.get_args(inner) if a is not type(None)] if typing.get_origin(inner) is typing.Union or str(type(inner)) == "<class 'types.UnionType'>" else []
    if args:
        inner = args[0]
    v = elem(meta.proto_type, inner)
    if v is None:
        return None
    return [v, v] if origin is list else v


def sample_instance(cls, depth: int = 2, variant: str = "base"):
    hints = resolve_hints(cls)
    kwargs = {}
    groups_done = set()
    for f in dataclasses.fields(cls):
        meta = f.metadata["betterproto"]
        if meta.group:
            if meta.group in groups_done:
                continue
        v = sample_value(cls, f.name, meta, hints[f.name], depth, variant)
        if v is None:
            continue
        if meta.group:
            groups_done.add(meta.group)
        kwargs[f.name] = v
    return cls(**kwargs)


def compile_variant(files: Dict[str, str], opts: List[str]):
    return plugin.compile_protos(files, opts=opts, tag="c18", want_descriptor=False)


def check_program(files: Dict[str, str], modules: List[str], label: List[str], t: Tally) -> List[Tuple[str, str, str]]:
    """Returns (oracle, variant, detail)."""
    out: List[Tuple[str, str, str]] = []
    results = {}
    base_desc: Dict[str, Any] = {}
    base_behaviour: Dict[str, Any] = {}
    try:
        for vname, opts in VARIANTS:
            res = compile_variant(files, opts)
            results[vname] = res
            t.inc("programs")
            if res.rc != 0:
                if "protoc-gen" not in res.stderr and "Traceback" not in res.stderr:
                    raise HarnessError(f"protoc rejects schema: {res.stderr[-300:]}")
                out.append(("plugin-failed", vname, res.stderr[-300:]))
                continue
            for package in modules:
                try:
                    mod = res.module(package)
                except Exception as e:
                    out.append(("import-failed", vname, f"package {package!r}: {type(e).__name__}: {e}"[:300]))
                    continue
                desc = describe_module(mod)
                t.inc("comparisons", sum(len(v) for v in desc["messages"].values()) + len(desc["enums"]))
                beh = {}
                for cname in desc["messages"]:
                    cls = getattr(mod, cname)
                    try:
                        encs, jss = [], []
                        for variant in SAMPLE_VARIANTS:
                            inst = sample_instance(cls, 2, variant)
                            encs.append(bytes(inst).hex())
                            try:
                                jss.append(inst.to_json())
                            except TypeError:
                                # bytes wrappers / bytes map values: a JSON finding of C04/C05,
                                # identical under every option; JSON is then not compared
                                jss = None
                                t.inc("json_unavailable_recorded")
                                break
                        beh[cname] = ("|".join(encs), None if jss is None else "|".join(jss), bytes(cls()).hex())
                    except Exception as e:
                        beh[cname] = ("ERR", f"{type(e).__name__}: {e}"[:200], "")
                if vname == "direct":
                    base_desc[package] = desc
                    base_behaviour[package] = beh
                    for cname, b in beh.items():
                        if b[0] == "ERR":
                            out.append(("sample-unusable", vname, f"{package}.{cname}: {b[1]}"))
                    continue
                if package not in base_desc:
                    continue
                if desc != base_desc[package]:
                    diff = [k for k in ("messages", "enums", "services") if desc[k] != base_desc[package][k]]
                    detail = ""
                    if "messages" in diff:
                        bm, dm = base_desc[package]["messages"], desc["messages"]
                        for cname in sorted(set(bm) | set(dm)):
                            if bm.get(cname) != dm.get(cname):
                                detail = f"{cname}: default {bm.get(cname)!r} vs {dm.get(cname)!r}"
                                break
                    out.append(("schema-differs", vname, f"package {package!r} differs in {diff}: {detail}"[:400]))
                for cname, b in beh.items():
                    b0 = base_behaviour[package].get(cname)
                    t.inc("comparisons")
                    if b0 is None or b0[0] == "ERR":
                        continue
                    if b[0] == "ERR":
                        out.append(("sample-unusable", vname, f"{package}.{cname}: {b[1]}"))
                    elif b[0] != b0[0] or b[2] != b0[2]:
                        out.append(("bytes-differ", vname, f"{package}.{cname}: {b[0]} vs default {b0[0]}"[:300]))
                    elif b[1] != b0[1] and b[1] is not None and b0[1] is not None:
                        out.append(("json-differs", vname, f"{package}.{cname}: {b[1]} vs default {b0[1]}"[:300]))
    finally:
        for res in results.values():
            res.cleanup()
    seen, uniq = set(), []
    for o, v, d in out:
        if (o, v) not in seen:
            seen.add((o, v))
            uniq.append((o, v, d))
    return uniq


def check_cycle(t: Tally) -> List[Tuple[str, str, str]]:
    """Packages that import each other in a cycle (every package refers to types of every other):
    under every option set every package must be importable FIRST (each order from a clean slate)."""
    out: List[Tuple[str, str, str]] = []
    pkgs = ["a", "b", "a.b"]
    files, _ = c13.all_program(pkgs, alias_fields=False)  # (alias-named fields + pydantic: a recorded finding)
    out += _cycle_program(files, pkgs, "Ref", t)
    # file graph acyclic, package graph cyclic, and the message referenced across the cycle refers on
    two = {"x/one.proto": 'syntax = "proto3";\npackage x;\nimport "y/one.proto";\nmessage A { y.B b = 1; int32 id = 2; }\n',
           "y/one.proto": 'syntax = "proto3";\npackage y;\nmessage B { int32 n = 1; }\n',
           "y/two.proto": 'syntax = "proto3";\npackage y;\nimport "x/one.proto";\nmessage C { x.A a = 1; }\n'}
    out += _cycle_program(two, ["x", "y"], None, t)
    three = {"z/one.proto": 'syntax = "proto3";\npackage z;\nmessage D { int32 n = 1; }\n',
             "y/one.proto": 'syntax = "proto3";\npackage y;\nimport "z/one.proto";\nmessage B { z.D d = 1; repeated z.D ds = 2; }\n',
             "x/one.proto": 'syntax = "proto3";\npackage x;\nimport "y/one.proto";\nmessage A { y.B b = 1; map<string, y.B> by = 2; }\n',
             "z/two.proto": 'syntax = "proto3";\npackage z;\nimport "x/one.proto";\nmessage E { x.A a = 1; oneof o { x.A oa = 2; int32 i = 3; } }\n'}
    out += _cycle_program(three, ["x", "y", "z"], None, t)
    seen, uniq = set(), []
    for o, v, d in out:
        if (o, v) not in seen:
            seen.add((o, v))
            uniq.append((o, v, d))
    return uniq


def _cycle_program(files: Dict[str, str], pkgs: List[str], only_class, t: Tally) -> List[Tuple[str, str, str]]:
    out: List[Tuple[str, str, str]] = []
    for vname, opts in VARIANTS:
        res = compile_variant(files, opts)
        t.inc("programs")
        try:
            if res.rc != 0:
                out.append(("plugin-failed", vname, res.stderr[-300:]))
                continue
            for first in pkgs:
                res.forget_imports()
                order = [first] + [p for p in pkgs if p != first]
                try:
                    for p in order:
                        mod = res.module(p)
                        for cname, cls in sorted(vars(mod).items()):
                            if not (isinstance(cls, type) and issubclass(cls, betterproto.Message) and cls.__module__ == mod.__name__):
                                continue
                            if only_class and cname != only_class:
                                continue
                            inst = sample_instance(cls, 2, "base")
                            if cls().parse(bytes(inst)) != inst:
                                raise AssertionError(f"{cname} does not round-trip")
                            cls().from_dict(inst.to_dict())
                    t.inc("comparisons", len(order))
                except Exception as e:
                    out.append(("cycle-import-order", vname, f"importing {order} in this order: {type(e).__name__}: {e}"[:300]))
                    break
        finally:
            res.cleanup()
    return out


def plan(tier: str):
    items: List[Tuple[str, Any]] = []
    for i, a in enumerate(AT.ATOMS):
        items.append(("atoms", ((a.name,), AT.PACKAGES[i % 4])))
    everything = tuple(a.name for a in AT.ATOMS if a.name not in ("msg_typing_names", "msg_builtin_names", "msg_keyword_names", "field_builtins", "field_builtin_then_repeated"))
    items.append(("atoms", (everything, "a.b")))
    items.append(("xref", ("a.b", "a.a")))
    items.append(("xref", ("a", "b.a")))
    items.append(("xref", ("", "a")))
    items.append(("xref", ("a.b", "")))
    items.append(("xref+alias-field", ("", "a")))
    items.append(("xref+alias-field", ("a", "a.b.a")))
    items.append(("xref+alias-field", ("a.b", "a.a")))
    items.append(("multi", None))
    items.append(("cycle", None))
    if tier == "thorough":
        names = [a.name for a in AT.ATOMS]
        for i, (x, y) in enumerate(AT.compatible_pairs(names)):
            items.append(("atoms", ((x, y), AT.PACKAGES[(i % 3) + 1])))
    return items


def run_item(kind: str, arg, t: Tally) -> List[Violation]:
    if kind == "atoms":
        names, pkg = arg
        files = {"s.proto": AT.render([AT.ATOM_BY_NAME[n] for n in names], pkg)}
        label = sorted(names) if len(names) <= 2 else ["everything"]
        fails = check_program(files, [pkg], label, t)
        case = {"kind": "atoms", "atoms": list(names), "package": pkg}
    elif kind == "multi":
        files = dict(AT.MULTI_FILES)
        label = ["multi-file-program"]
        fails = check_program(files, list(AT.MULTI_PACKAGES), label, t)
        case = {"kind": "multi"}
    elif kind == "cycle":
        label = ["package-cycle"]
        fails = check_cycle(t)
        case = {"kind": "cycle"}
    else:
        # cross-package references; "xref+alias-field" additionally gives the referrer plain fields
        # named like the module aliases of the target package
        r, tg = arg
        alias = kind == "xref+alias-field"
        files, _ = c13.pair_program(r, tg, alias_fields=alias)
        label = [kind + ":" + c13.relation(r, tg)]
        fails = check_program(files, sorted({r, tg}), label, t)
        case = {"kind": kind, "referrer": r, "target": tg}
    return [Violation(["options", o, v] + label, f"[{v}] {d} -- {case}"[:500], case) for o, v, d in fails]


def _shard(shard: int, nshards: int, extra) -> Tally:
    t = Tally()
    items = _W["items"]
    for i in range(shard, len(items), nshards):
        kind, arg = items[i]
        for v in run_item(kind, arg, t):
            t.violate(v, cap_per_sig=1)
        if i % 13 == 0:
            t.sample({"program": kind, "arg": arg, "variants": [v for v, _ in VARIANTS]})
    return t


def run(ctx: Ctx) -> None:
    _W["items"] = plan(ctx.tier)
    t = merge_tallies(pmap_shards(_shard, min(64, len(_W["items"])), None))
    vs = [Violation.from_json(vj) for vj in t.violations]
    # pair failures already explained by one of the atoms alone
    single = {(v.signature[1], v.signature[2], v.case["atoms"][0]) for v in vs
              if v.case.get("kind") == "atoms" and len(v.case["atoms"]) == 1}
    for v in vs:
        if v.case.get("kind") == "atoms" and len(v.case["atoms"]) >= 2:
            if any((v.signature[1], v.signature[2], a) in single for a in v.case["atoms"]):
                continue
        ctx.add(v)
    ctx.coverage.update(
        programs=t.n.get("programs", 0),
        disagreements_checked=t.n.get("comparisons", 0),
        schemas=len(_W["items"]),
        variants=[v for v, _ in VARIANTS],
        exhaustive=True,
        samples=t.samples or [{"program": "atoms", "arg": ["plain"]}],
        rule="programs = schema x option set compiled with the real plugin and imported (6 per schema); "
             "disagreements_checked = comparisons of class sets, field metadata, enum members, and of "
             "bytes()/to_json() of a deterministic sample value of every message class, against the "
             "default configuration",
    )
    ctx.assumptions += [
        "pydantic oneof members are Optional by design (documented difference); 'optional' flags are "
        "therefore not compared for oneof members",
        "sample values are derived from field metadata and resolved type hints only",
    ]


def replay(case: dict) -> List[Violation]:
    t = Tally()
    if case["kind"] == "atoms":
        return run_item("atoms", (tuple(case["atoms"]), case["package"]), t)
    if case["kind"] in ("multi", "cycle"):
        return run_item(case["kind"], None, t)
    return run_item(case["kind"], (case["referrer"], case["target"]), t)
