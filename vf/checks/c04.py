"""C04 JSON / dict round trip: from_dict(to_dict(m)) and from_json(to_json(m)) give m."""
from __future__ import annotations

import json
from typing import Any, Dict, List

import betterproto

from vf.core import absval as av
from vf.core.runner import Ctx, Tally
from vf.core.smallscope import Fail, hkey, replay_case, run_universe
from vf.core.universe import TypeCase, Universe, fresh_variant, get_universe
from vf.checks.c01 import build

LEVEL = "model_checking"
ROUTES = ("ctor", "parse")
CASINGS = (("camel", betterproto.Casing.CAMEL), ("snake", betterproto.Casing.SNAKE))


def oracle(u: Universe, tc: TypeCase, aval: Dict[str, Any], route: str, tally: Tally) -> List[Fail]:
    if route.endswith("@604"):
        # the same message type declared with PEP 604 / builtin-generic annotations (what the plugin
        # writes under typing.310): "Color | None", "list[Sub]", "dict[str, int]"
        u, route = u.view604(), route[:-4]
    exp = av.normalize(u.schema, tc.msg, aval)
    cls = getattr(u.bp, tc.msg.name)
    fails: List[Fail] = []
    try:
        m = build(u, tc, aval, route)
        b = bytes(m)
    except Exception as e:
        return [("build", f"{type(e).__name__}: {e}"[:200])]
    for cname, casing in CASINGS:
        try:
            d = m.to_dict(casing=casing)
            tally.inc("edges")
        except Exception as e:
            fails.append((f"to_dict", f"[{cname}] {type(e).__name__}: {e}"[:200]))
            continue
        try:
            text = json.dumps(d)
        except Exception as e:
            fails.append(("not-json-serialisable", f"[{cname}] json.dumps(to_dict(m)) raised {type(e).__name__}: {e}; dict={d!r}"[:300]))
            continue
        try:
            if m.to_json(casing=casing) != text:
                fails.append(("to_json", f"[{cname}] to_json differs from json.dumps(to_dict)"))
        except Exception as e:
            fails.append(("to_json", f"[{cname}] {type(e).__name__}: {e}"[:200]))
        for pname, src in (("dict", d), ("text", None)):
            for form in ("class", "instance"):
                try:
                    if pname == "dict":
                        m2 = cls.from_dict(src) if form == "class" else cls().from_dict(src)
                    else:
                        m2 = cls().from_json(text) if form == "instance" else cls.from_dict(json.loads(text))
                    tally.inc("edges")
                except Exception as e:
                    fails.append((f"from_dict@{pname}", f"[{cname}/{pname}/{form}] {type(e).__name__}: {e}; dict={d!r}"[:300]))
                    continue
                try:
                    if not (m2 == m):
                        fails.append((f"eq@{pname}", f"[{cname}/{pname}/{form}] from_dict(to_dict(m)) != m; dict={d!r}"[:300]))
                    p2 = av.project_bp(u.schema, tc.msg, m2)
                    if not av.aval_eq(p2, exp):
                        fails.append((f"value@{pname}", f"[{cname}/{pname}/{form}] got {av.to_jsonable(p2)!r} expected {av.to_jsonable(exp)!r}; dict={d!r}"[:400]))
                    b2 = bytes(m2)
                    if b2 != b:
                        fails.append((f"bytes@{pname}", f"[{cname}/{pname}/{form}] encodes {b2.hex()[:60]} instead of {b.hex()[:60]}; dict={d!r}"[:300]))
                except Exception as e:
                    fails.append((f"observe@{pname}", f"[{cname}/{pname}/{form}] {type(e).__name__}: {e}"[:200]))
        tally.mark("outcomes", hkey(tc.msg.name, text))
    # dedupe oracle names (keep first detail)
    seen, out = set(), []
    for n, dd in fails:
        if n not in seen:
            seen.add(n)
            out.append((n, dd))
    return out


def routes_fn(tc, aval):
    r = ROUTES
    if fresh_variant(tc.msg, aval):
        r = r + ("ctor_fresh",)  # empty messages in container positions as fresh instances
    if tc.tag in ("T1", "KS", "TN", "REC"):
        r = r + ("ctor@604", "parse@604")
    return r


def run(ctx: Ctx) -> None:
    u = get_universe(ctx.tier)
    u.view604()  # built before the workers fork
    t = run_universe(ctx, u, oracle, routes_fn)
    ctx.coverage.update(
        states=t.n.get("cases", 0),
        transitions=t.n.get("edges", 0),
        traces_validated_against_impl=t.n.get("cases", 0),
        exhaustive=True,
        message_types=len(u.types),
        abstract_values=u.count(),
        paths_per_state="2 casings x {dict, JSON text} x {classmethod, instance}",
        distinct_json_texts=len(t.sets.get("outcomes", ())),
        failures_explained_by_restriction=t.n.get("failures_explained_by_restriction", 0),
        samples=t.samples,
        rule="state = (message type, abstract value, route); edges = to_dict, json.dumps, 4 x from_dict "
             "per casing on the real implementation; equality, projection and bytes compared",
    )
    ctx.assumptions += ["value alphabets and universe as C01"]


def replay(case: dict):
    return replay_case(oracle, case, get_universe)


# (replay builds the PEP 604 view lazily through oracle -> u.view604())
