"""C05 JSON output and input follow the canonical proto3 JSON mapping (vs json_format)."""
from __future__ import annotations

import json
from typing import Any, Dict, List

from google.protobuf import json_format

from vf.core import absval as av
from vf.core import jsonmodel
from vf.core.runner import Ctx, HarnessError, Tally
from vf.core.smallscope import Fail, hkey, replay_case, run_universe
from vf.core.universe import TypeCase, Universe, get_universe

LEVEL = "model_checking"
ROUTES = ("bp->ref", "ref->bp", "lexical")


def oracle(u: Universe, tc: TypeCase, aval: Dict[str, Any], route: str, tally: Tally) -> List[Fail]:
    exp = av.normalize(u.schema, tc.msg, aval)
    cls = getattr(u.bp, tc.msg.name)
    refcls = u.ref.cls(tc.msg.name)
    if route.startswith("ref->bp"):
        ref = av.make_ref(u.schema, u.ref, tc.msg, aval)
        # the reference's printer options: each is JSON text "the reference emits for a message"
        opts = {"ref->bp": {}, "ref->bp:proto-names": {"preserving_proto_field_name": True},
                "ref->bp:enum-numbers": {"use_integers_for_enums": True},
                "ref->bp:with-defaults": {"always_print_fields_with_no_presence": True}}[route]
        try:
            text = json_format.MessageToJson(ref, **opts)
        except Exception as e:
            raise HarnessError(f"reference cannot print {tc.msg.name} {aval!r}: {e}")
        tally.inc("edges")
        try:
            m = cls().from_json(text)
            tally.inc("edges")
            p = av.project_bp(u.schema, tc.msg, m)
            errs = av.type_errors(u.schema, tc.msg, m)
            bytes(m)
        except Exception as e:
            return [("bp-rejects-reference-json", f"{type(e).__name__}: {e}; json={text!r}"[:300])]
        if errs:
            return [("bp-reads-wrong-type", f"{errs[:2]}; json={text!r}"[:300])]
        if not av.aval_eq(p, exp):
            return [("bp-reads-reference-json", f"got {av.to_jsonable(p)!r}, expected {av.to_jsonable(exp)!r}; json={text!r}"[:400])]
        return []
    try:
        m = av.make_bp(u.bp, u.schema, tc.msg, aval, "ctor")
        if route == "bp->ref:foreign-enum":
            # the field holds a member of ANOTHER enum class with the same number (a v1 enum value
            # put into a v2 message): what is emitted is the name the FIELD's enum gives that number
            for f in tc.msg.fields:
                if f.base != "enum" or f.name not in aval:
                    continue
                other = u.bp.Shade if f.kind == "enum:Color" else u.bp.Color
                conv = lambda n: other.try_value(int(n))
                v = aval[f.name]
                if f.card == "repeated":
                    setattr(m, f.name, [conv(x) for x in v])
                elif f.card == "map":
                    setattr(m, f.name, {k: conv(x) for k, x in v.items()})
                else:
                    setattr(m, f.name, conv(v))
            route = "bp->ref"
        d = m.to_dict()
        text = m.to_json()
        tally.inc("edges")
    except Exception as e:
        return [("to_json", f"{type(e).__name__}: {e}"[:200])]
    if route == "lexical":
        # the model's rendering must itself be accepted by the reference (binding of the model)
        model_d = jsonmodel.to_json_dict(u.schema, tc.msg, aval)
        chk = refcls()
        try:
            json_format.ParseDict(model_d, chk)
            if not av.aval_eq(av.project_ref(u.schema, tc.msg, chk), exp):
                raise HarnessError(f"JSON model disagrees with reference for {tc.msg.name} {aval!r}: {model_d!r}")
        except json_format.ParseError as e:
            raise HarnessError(f"reference rejects the JSON model's rendering {model_d!r}: {e}")
        # the lexical clauses are about the JSON *text*: integer / bool map keys of to_dict are
        # turned into JSON strings by json.dumps
        errs = jsonmodel.shape_errors(u.schema, tc.msg, json.loads(text))
        return [("lexical", "; ".join(errs[:2])[:400])] if errs else []
    chk = refcls()
    try:
        json_format.Parse(text, chk)
        tally.inc("edges")
    except Exception as e:
        return [("reference-rejects-bp-json", f"{e}; json={text!r}"[:300])]
    p = av.project_ref(u.schema, tc.msg, chk)
    if not av.aval_eq(p, exp):
        return [("reference-reads-bp-json", f"reference got {av.to_jsonable(p)!r}, expected {av.to_jsonable(exp)!r}; json={text!r}"[:400])]
    tally.mark("outcomes", hkey(tc.msg.name, text))
    return []


def routes_fn(tc, aval):
    if tc.tag == "T1" and tc.msg.fields[0].base == "enum" and aval:
        return ROUTES + ("ref->bp:proto-names", "ref->bp:enum-numbers", "ref->bp:with-defaults", "bp->ref:foreign-enum")
    if tc.tag in ("T1", "TN", "KS", "REC"):
        return ROUTES + ("ref->bp:proto-names", "ref->bp:enum-numbers", "ref->bp:with-defaults")
    return ROUTES


def run(ctx: Ctx) -> None:
    u = get_universe(ctx.tier)
    t = run_universe(ctx, u, oracle, routes_fn)
    ctx.coverage.update(
        states=t.n.get("cases", 0),
        transitions=t.n.get("edges", 0),
        traces_validated_against_impl=t.n.get("cases", 0),
        exhaustive=True,
        message_types=len(u.types),
        abstract_values=u.count(),
        distinct_json_texts=len(t.sets.get("outcomes", ())),
        failures_explained_by_restriction=t.n.get("failures_explained_by_restriction", 0),
        samples=t.samples,
        rule="state = (type, value, direction | lexical); bp JSON parsed by json_format.Parse, "
             "json_format.MessageToJson parsed by from_json, and to_dict checked against the mapping's "
             "lexical clauses by a JSON model that is itself validated against the reference",
    )
    ctx.assumptions += ["value alphabets as C01 (all times at microsecond resolution)"]


def replay(case: dict):
    return replay_case(oracle, case, get_universe)
