"""C15 Timestamp/Duration <-> datetime/timedelta: exact, normalised, reference-equal.

Structured finite domain, enumerated completely (no sampling): the product of boundary
seconds x boundary microseconds x signs (x UTC offsets for datetimes) plus EVERY
microsecond of dense windows around zero / the epoch.
"""
from __future__ import annotations

import json
from datetime import datetime, timedelta, timezone, tzinfo
from typing import Any, Dict, List, Tuple

import betterproto
from google.protobuf import duration_pb2, json_format, timestamp_pb2

from vf.core import absval as av
from vf.core.runner import Ctx, HarnessError, Tally, Violation, merge_tallies, pmap_shards
from vf.core.schema import Field, Msg, Schema, build_bp, build_ref

import re

DUR_RE = re.compile(r"^-?\d+(\.\d{3}|\.\d{6}|\.\d{9})?s$")
TS_RE = re.compile(r"^\d{4}-\d{2}-\d{2}T\d{2}:\d{2}:\d{2}(\.\d{3}|\.\d{6}|\.\d{9})?Z$")

LEVEL = "model_checking"
SCHEMA = Schema("vfc15", (), (
    Msg("TD", (Field("t", 1, "timestamp", "optional"), Field("d", 2, "duration", "optional"),
               Field("ts", 3, "timestamp"), Field("ds", 4, "duration"),
               Field("many", 5, "timestamp", "repeated"), Field("by", 6, "timestamp", "map", key="string"))),
))
_S: Dict[str, Any] = {}
US = timedelta(microseconds=1)
MAX_DUR_S = 315576000000
MICROS = [0, 1, 999, 1000, 499999, 500000, 999000, 999999]


def state():
    if not _S:
        _S["bp"] = build_bp(SCHEMA, "vf_c15")
        _S["ref"] = build_ref(SCHEMA)
    return _S["bp"], _S["ref"]


def duration_domain(tier: str) -> List[int]:
    """Durations as integer microseconds."""
    secs = [0, 1, 59, 60, 3599, 86399, 86400, 2**31 - 1, 2**31, 2**31 + 1, 2**32,
            2**53 // 10**6 - 1, 2**53 // 10**6, 2**53 // 10**6 + 1, 10**10, MAX_DUR_S - 1, MAX_DUR_S]
    out = set()
    for s in secs:
        for us in MICROS:
            if s == MAX_DUR_S and us:
                continue
            for sign in (1, -1):
                out.add(sign * (s * 10**6 + us))
    w = 150_000 if tier == "quick" else 2 * 10**6
    dense = list(range(-w, w + 1))
    for centre in (10**6, 60 * 10**6, 2**31 * 10**6, 2**53, 10**15, MAX_DUR_S * 10**6 - 2000):
        for sign in (1, -1):
            dense += [sign * (centre + d) for d in range(-1500, 1501)]
    dense = [x for x in dense if abs(x) <= MAX_DUR_S * 10**6]
    return sorted(out), dense


OFFSETS_MIN = [0, -23 * 60 - 59, -8 * 60, 5 * 60 + 30, 14 * 60, 23 * 60 + 59]
Y1 = (datetime(1, 1, 1, tzinfo=timezone.utc) - av.EPOCH) // timedelta(seconds=1)
Y9999 = (datetime(9999, 12, 31, 23, 59, 59, tzinfo=timezone.utc) - av.EPOCH) // timedelta(seconds=1)


def timestamp_domain(tier: str):
    leap = (datetime(2000, 2, 29, 23, 59, 59, tzinfo=timezone.utc) - av.EPOCH) // timedelta(seconds=1)
    leap2 = (datetime(1900, 2, 28, 23, 59, 59, tzinfo=timezone.utc) - av.EPOCH) // timedelta(seconds=1)
    secs = [Y1, Y1 + 1, -2**31 - 1, -2**31, -86400, -61, -60, -2, -1, 0, 1, 59, 60, 86399, 86400,
            2**31 - 1, 2**31, 2**31 + 1, 2**32, leap, leap + 1, leap2, leap2 + 1, Y9999 - 1, Y9999]
    out = set()
    for s in secs:
        for us in MICROS:
            out.add(s * 10**6 + us)
    w = 100_000 if tier == "quick" else 2 * 10**6
    dense = list(range(-w, w + 1))
    for centre in (10**6, -10**6, 2**31 * 10**6, -2**31 * 10**6, 2**53, -2**53, Y1 * 10**6 + 2000, Y9999 * 10**6 - 2000):
        dense += [centre + d for d in range(-1500, 1501)]
    lo, hi = Y1 * 10**6, Y9999 * 10**6 + 999999
    dense = [x for x in dense if lo <= x <= hi]
    return sorted(out), dense


def dclass(us: int) -> str:
    if us == 0:
        return "zero"
    big = "big" if abs(us) >= 2**53 else "small"
    if us > 0:
        return f"pos-{big}" + ("-frac" if us % 10**6 else "-whole")
    return f"neg-{big}" + ("-frac" if (-us) % 10**6 else "-whole")


def check_duration(us: int, t: Tally) -> List[Violation]:
    bp, ref = state()
    td = us * US
    out: List[Violation] = []

    def bad(oracle: str, detail: str):
        out.append(Violation(["duration", oracle, dclass(us)], f"timedelta={td!r} ({us} us): {detail}"[:400],
                             {"kind": "duration", "us": str(us)}))

    rd = duration_pb2.Duration()
    rd.FromTimedelta(td)
    want = av.dur_parts(td)
    if (rd.seconds, rd.nanos) != want:
        raise HarnessError(f"integer model and reference disagree on Duration of {td!r}: {want} vs {(rd.seconds, rd.nanos)}")
    for fname in ("d", "ds"):
        try:
            m = bp.TD(**{fname: td})
            data = bytes(m)
            t.inc("edges")
            r = ref.cls("TD").FromString(data)
            got = (getattr(r, fname).seconds, getattr(r, fname).nanos)
            present = r.HasField(fname)
        except Exception as e:
            bad("encode", f"{type(e).__name__}: {e}")
            continue
        if fname == "ds" and us == 0:
            continue
        if not present or got != want:
            bad("seconds-nanos", f"field {fname} encodes {got if present else 'nothing'}, reference gives {want}")
            continue
        if (got[0] > 0 and got[1] < 0) or (got[0] < 0 and got[1] > 0) or abs(got[1]) >= 10**9:
            bad("normalised", f"(seconds, nanos) = {got}")
        try:
            back = getattr(bp.TD().parse(data), fname)
            t.inc("edges")
            if back != td:
                bad("decode", f"decodes to {back!r}")
        except Exception as e:
            bad("decode", f"{type(e).__name__}: {e}")
    # JSON
    try:
        m = bp.TD(d=td)
        js = m.to_dict()
        refmsg = ref.cls("TD")()
        refmsg.d.FromTimedelta(td)
        want_js = json_format.MessageToDict(refmsg)["d"]
        t.inc("edges")
        out_js = js.get("d")
        if not isinstance(out_js, str) or not DUR_RE.match(out_js):
            bad("json-out", f"to_dict gives {out_js!r}, not decimal seconds with 0/3/6/9 fractional digits (reference: {want_js!r})")
        else:
            chk = ref.cls("TD")()
            try:
                json_format.ParseDict({"d": out_js}, chk)
                if (chk.d.seconds, chk.d.nanos) != want:
                    bad("json-out", f"to_dict gives {out_js!r} which the reference reads as {(chk.d.seconds, chk.d.nanos)}, expected {want}")
            except json_format.ParseError as e:
                bad("json-out", f"to_dict gives {out_js!r}, rejected by the reference parser: {e}")
        back = bp.TD().from_dict({"d": want_js}).d
        t.inc("edges")
        if back != td:
            bad("json-in", f"from_dict({want_js!r}) gives {back!r}")
    except Exception as e:
        bad("json", f"{type(e).__name__}: {e}")
    return out


class SeasonalZone(tzinfo):
    """A zone whose UTC offset depends on the date (+01:00, +02:00 from April to September), like
    every zone with daylight saving time.  ONE object is shared by all datetimes of a run."""

    def dst(self, dt):
        return timedelta(hours=1) if dt is not None and 4 <= dt.month <= 9 else timedelta(0)

    def utcoffset(self, dt):
        return timedelta(hours=1) + self.dst(dt)

    def tzname(self, dt):
        return "SEASONAL"


SEASONAL = SeasonalZone()


def tclass(us: int, off: int) -> str:
    era = "pre-epoch" if us < 0 else ("epoch" if us == 0 else "post-epoch")
    frac = "-frac" if us % 10**6 else "-whole"
    big = "-far" if abs(us) >= 2**53 else ""
    return era + frac + big + ("-utc" if off == 0 else "-seasonal-zone" if off == "seasonal" else "-offset")


def check_timestamp(us: int, off_min: int, t: Tally) -> List[Violation]:
    bp, ref = state()
    out: List[Violation] = []
    if off_min == "seasonal":
        tz = SEASONAL
    else:
        tz = timezone(timedelta(minutes=off_min)) if off_min else timezone.utc
    try:
        dt = (av.EPOCH + us * US).astimezone(tz)
    except (OverflowError, ValueError):
        return out  # instant not representable in that zone within 0001-9999
    # (the numeric-offset JSON text below is only built for fixed offsets)
    t.inc("instants")

    def bad(oracle: str, detail: str):
        out.append(Violation(["timestamp", oracle, tclass(us, off_min)],
                             f"datetime={dt.isoformat()} ({us} us): {detail}"[:400],
                             {"kind": "timestamp", "us": str(us), "off": off_min}))

    rt = timestamp_pb2.Timestamp()
    rt.FromDatetime(dt)
    want = av.ts_parts(dt)
    if (rt.seconds, rt.nanos) != want:
        raise HarnessError(f"integer model and reference disagree on Timestamp of {dt!r}: {want} vs {(rt.seconds, rt.nanos)}")
    for fname in ("t", "ts"):
        try:
            m = bp.TD(**{fname: dt})
            data = bytes(m)
            t.inc("edges")
            r = ref.cls("TD").FromString(data)
            got = (getattr(r, fname).seconds, getattr(r, fname).nanos)
            present = r.HasField(fname)
        except Exception as e:
            bad("encode", f"{type(e).__name__}: {e}")
            continue
        if fname == "ts" and us == 0:
            continue
        if not present or got != want:
            bad("seconds-nanos", f"field {fname} encodes {got if present else 'nothing'}, reference gives {want}")
            continue
        if not 0 <= got[1] < 10**9:
            bad("normalised", f"nanos = {got[1]}")
        try:
            back = getattr(bp.TD().parse(data), fname)
            t.inc("edges")
            if back != dt or back.utcoffset() is None:
                bad("decode", f"decodes to {back!r}")
        except Exception as e:
            bad("decode", f"{type(e).__name__}: {e}")
    try:
        m = bp.TD(t=dt)
        js = m.to_dict()
        refmsg = ref.cls("TD")()
        refmsg.t.FromDatetime(dt)
        want_js = json_format.MessageToDict(refmsg)["t"]
        t.inc("edges")
        out_js = js.get("t")
        if not isinstance(out_js, str) or not TS_RE.match(out_js):
            bad("json-out", f"to_dict gives {out_js!r}, not RFC 3339 UTC with 0/3/6/9 fractional digits (reference: {want_js!r})")
        else:
            chk = ref.cls("TD")()
            try:
                json_format.ParseDict({"t": out_js}, chk)
                if (chk.t.seconds, chk.t.nanos) != want:
                    bad("json-out", f"to_dict gives {out_js!r} which the reference reads as {(chk.t.seconds, chk.t.nanos)}, expected {want}")
            except json_format.ParseError as e:
                bad("json-out", f"to_dict gives {out_js!r}, rejected by the reference parser: {e}")
        back = bp.TD().from_dict({"t": want_js}).t
        t.inc("edges")
        if back != dt:
            bad("json-in", f"from_dict({want_js!r}) gives {back!r}")
        if off_min and isinstance(off_min, int) and not isinstance(off_min, bool):
            # RFC 3339 text with a numeric offset (legal proto3 JSON input; the reference is the
            # arbiter of what instant it denotes)
            text = dt.strftime("%Y-%m-%dT%H:%M:%S") + (".%06d" % dt.microsecond if dt.microsecond else "")
            text += "%s%02d:%02d" % ("+" if off_min > 0 else "-", abs(off_min) // 60, abs(off_min) % 60)
            chk = ref.cls("TD")()
            try:
                json_format.ParseDict({"t": text}, chk)
                ref_reads = (chk.t.seconds, chk.t.nanos)
            except json_format.ParseError:
                ref_reads = None
            if ref_reads is not None:
                if ref_reads != want:
                    raise HarnessError(f"reference reads {text!r} as {ref_reads}, integer model says {want}")
                for key, fn in (("t", "t"), ("many", "many"), ("by", "by")):
                    payload = {"t": text} if key == "t" else {"many": [text]} if key == "many" else {"by": {"k": text}}
                    got_m = bp.TD().from_dict(payload)
                    t.inc("edges")
                    got_dt = got_m.t if key == "t" else got_m.many[0] if key == "many" else got_m.by["k"]
                    if got_dt != dt or av.ts_parts(got_dt) != want:
                        bad("json-in-offset", f"from_dict({payload!r}) gives {got_dt!r}: {av.ts_parts(got_dt)}, the reference reads {want}")
    except HarnessError:
        raise
    except Exception as e:
        bad("json", f"{type(e).__name__}: {e}")
    return out


def _shard(shard: int, nshards: int, extra) -> Tally:
    tier = extra
    t = Tally()
    dstruct, ddense = duration_domain(tier)
    i = 0
    for us in list(dstruct) + list(ddense):
        i += 1
        if i % nshards != shard:
            continue
        t.inc("durations")
        for v in check_duration(us, t):
            t.violate(v, cap_per_sig=2)
    tstruct, tdense = timestamp_domain(tier)
    for us in tstruct:
        for off in OFFSETS_MIN:
            i += 1
            if i % nshards != shard:
                continue
            for v in check_timestamp(us, off, t):
                t.violate(v, cap_per_sig=2)
    for us in tstruct:
        i += 1
        if i % nshards != shard:
            continue
        # the instant and the one half a year later (other side of the offset change), both
        # through the ONE shared zone object, in this order and in this process
        for us2 in (us, us + 182 * 86400 * 10**6, us - 182 * 86400 * 10**6):
            if Y1 * 10**6 <= us2 <= Y9999 * 10**6 + 999999:
                for v in check_timestamp(us2, "seasonal", t):
                    t.violate(v, cap_per_sig=2)
    for us in tdense:
        i += 1
        if i % nshards != shard:
            continue
        off = OFFSETS_MIN[(us // 1000) % len(OFFSETS_MIN)] if us % 7 == 0 else 0
        for v in check_timestamp(us, off, t):
            t.violate(v, cap_per_sig=2)
    if shard == 0:
        t.sample({"timedelta_us": -1500000})
        t.sample({"datetime": "1969-12-31T23:59:59.999999+05:30"})
    return t


def run(ctx: Ctx) -> None:
    state()
    t = merge_tallies(pmap_shards(_shard, 64, ctx.tier))
    for vj in t.violations:
        ctx.add(Violation.from_json(vj))
    states = t.n.get("durations", 0) + t.n.get("instants", 0)
    ctx.coverage.update(
        states=states,
        transitions=t.n.get("edges", 0),
        traces_validated_against_impl=states,
        exhaustive=True,
        durations=t.n.get("durations", 0),
        datetimes=t.n.get("instants", 0),
        utc_offsets_minutes=OFFSETS_MIN,
        samples=t.samples,
        rule="state = one timedelta or one aware datetime; domain = boundary seconds x boundary "
             "microseconds x sign (x 6 UTC offsets) plus every microsecond of a dense window around "
             "zero / the epoch; each encoded, decoded by the reference, decoded back, and mapped to "
             "and from JSON, compared with google.protobuf and an integer model",
    )
    ctx.assumptions += [
        "the other ~3e17 microsecond values are not explored; the conversion is integer arithmetic with "
        "no further branch points (structural argument, not exhaustive)",
        "a non-optional Timestamp/Duration field holding the epoch / zero is indistinguishable from unset",
    ]


def replay(case: dict) -> List[Violation]:
    state()
    t = Tally()
    if case["kind"] == "duration":
        return check_duration(int(case["us"]), t)
    return check_timestamp(int(case["us"]), case["off"], t)
