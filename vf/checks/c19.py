"""C19 name mapping is total and safe, and JSON keys map back to their fields.

Exhaustive over ALL legal proto identifiers up to length 6 (7 thorough) over the
alphabet {a, b, A, B, 0, 1, _}, all Python keywords / soft keywords / builtins and a
real-world corpus.  Function-level for every identifier, bound to real message classes
(built with the public field API) for a deterministic subset.
"""
from __future__ import annotations

import builtins
import itertools
import keyword
import re
from typing import Any, Dict, List, Tuple

import betterproto
from betterproto import casing
from betterproto.compile import naming

from vf.core.runner import Ctx, Tally, Violation, merge_tallies, pmap_shards
from vf.core.schema import _camel

LEVEL = "model_checking"
ALPHA = "abAB01_"
FIRST = "abAB_"
CORPUS = [
    "address_line_1", "address_line_2", "ipv4_address", "ipv6_address", "x_y_z", "HTTPStatus",
    "http_status", "userID", "user_id", "URL", "url2", "sha256_hash", "md5", "a1b2", "is_3d",
    "oauth2_token", "utf8_text", "x509_cert", "lat", "long", "created_at", "updatedAt", "e2e_id",
    "i18n_key", "k8s_pod", "s3_bucket", "vlan_id_1", "foo_bar_baz", "fooBarBaz", "FooBar", "FOO_BAR",
    "foo__bar", "_private", "__dunder__", "trailing_", "a", "A", "_", "__", "a_", "_a", "a_b", "aB",
    "Ab", "AB", "a0", "a_0", "a0_b", "type", "id", "name", "value", "key", "from", "class", "import",
    "None", "True", "list", "dict", "str", "int", "float", "bool", "bytes", "object", "self", "cls",
    "match", "case", "print", "field_1_name", "f1_2_3", "x1y2z3", "camelCase1Word", "ALLCAPS123",
    "mixed_Case_Name", "a_b_c_d_e", "end_with_digit9", "_1", "_0a", "b_1_",
]


def identifiers(maxlen: int):
    for ln in range(1, maxlen + 1):
        for first in FIRST:
            for rest in itertools.product(ALPHA, repeat=ln - 1):
                yield first + "".join(rest)


MESSAGE_ATTRS = {a for a in dir(betterproto.Message) if not a.startswith("_")}


def special_names() -> List[str]:
    out = list(keyword.kwlist) + list(keyword.softkwlist) + [n for n in dir(builtins)]
    # the public attributes of Message itself, in every spelling a .proto author may use
    for attr in dir(betterproto.Message):
        if attr.startswith("_"):
            continue
        parts = attr.split("_")
        out += [attr, attr.upper(), "".join(p.capitalize() for p in parts),
                parts[0] + "".join(p.capitalize() for p in parts[1:]), attr.capitalize()]
    seen = []
    for n in out + CORPUS:
        if re.fullmatch(r"[A-Za-z_][A-Za-z0-9_]*", n) and n not in seen:
            seen.append(n)
    return seen


def shape(name: str) -> str:
    """Equivalence class of an identifier for finding signatures."""
    parts = []
    if name.startswith("_"):
        parts.append("lead_")
    if name.endswith("_") and len(name) > 1:
        parts.append("trail_")
    if "__" in name.strip("_"):
        parts.append("double_")
    if re.search(r"_[0-9]", name):
        parts.append("us-digit")
    if re.search(r"[0-9]_", name):
        parts.append("digit-us")
    if re.search(r"[0-9][A-Za-z]", name):
        parts.append("digit-letter")
    if re.search(r"_[A-Za-z]_", "_" + name + "_") and len(name.strip("_")) > 1:
        parts.append("single-letter-word")
    if re.search(r"[a-z][A-Z]", name):
        parts.append("lowerUpper")
    if re.search(r"[A-Z][A-Z]", name):
        parts.append("UPPERRUN")
    if not name.strip("_"):
        parts.append("only_")
    elif not name.strip("_0123456789"):
        parts.append("only_digits")
    if keyword.iskeyword(name) or keyword.issoftkeyword(name):
        parts.append("keyword")
    return "+".join(parts) or "plain"


def safe(n: str) -> bool:
    return isinstance(n, str) and n.isidentifier() and not keyword.iskeyword(n)


def check_name(name: str, t: Tally, build_class: bool) -> List[Violation]:
    out: List[Violation] = []
    sh = shape(name)

    def bad(oracle: str, detail: str):
        out.append(Violation(["names", oracle, sh], f"identifier {name!r}: {detail}"[:300], {"name": name}))

    fns = [
        ("field", naming.pythonize_field_name),
        ("method", naming.pythonize_method_name),
        ("class", naming.pythonize_class_name),
        ("enum-member", lambda n: naming.pythonize_enum_member_name(n, "Kind")),
        ("enum-member-prefixed", lambda n: naming.pythonize_enum_member_name("KIND_" + n, "Kind")),
    ]
    for label, fn in fns:
        t.inc("edges")
        try:
            r = fn(name)
        except Exception as e:
            bad(f"{label}-raised", f"{type(e).__name__}: {e}")
            continue
        if not safe(r):
            bad(f"{label}-not-identifier", f"maps to {r!r}")
            continue
        try:
            r2 = fn(r) if label != "enum-member-prefixed" else naming.pythonize_enum_member_name(r, "Kind")
            if r2 != r:
                if label == "class" and re.search(r"[A-Z]{2}", r):
                    # reason class of the one known finding: an upper-case run in the
                    # PascalCase form is re-split on the second application
                    out.append(Violation(["names", "class-not-idempotent", "pascal-form-has-upper-run"],
                                         f"identifier {name!r}: {name!r} -> {r!r} -> {r2!r}", {"name": name}))
                else:
                    bad(f"{label}-not-idempotent", f"{name!r} -> {r!r} -> {r2!r}")
        except Exception as e:
            bad(f"{label}-raised", f"second application: {type(e).__name__}: {e}")
    # key round trip (function level): what to_dict emits / protoc's json_name / the proto name
    try:
        py = naming.pythonize_field_name(name)
    except Exception:
        return out
    if not safe(py):
        return out
    keys = {
        "camel-key": casing.camel_case(py).rstrip("_"),
        "snake-key": casing.snake_case(py).rstrip("_"),
        "proto-name": name,
        "protoc-json-name": _camel(name),
    }
    if build_class:
        t.inc("classes")
        try:
            import dataclasses
            cls = dataclasses.make_dataclass(
                "N", [(py, int, betterproto.int32_field(1))], bases=(betterproto.Message,),
                eq=False, repr=False)
            cls.__module__ = "vf_c19_mod"
            m = cls(**{py: 7})
            for label, cs in (("camel-key", betterproto.Casing.CAMEL), ("snake-key", betterproto.Casing.SNAKE)):
                d = m.to_dict(casing=cs)
                t.inc("edges")
                if len(d) != 1:
                    bad(f"{label}-dropped", f"to_dict gives {d!r}")
                    continue
                (k, v), = d.items()
                if k != keys[label]:
                    bad("class-function-mismatch", f"to_dict key {k!r} but casing function gives {keys[label]!r}")
                for how, back in (("class", cls.from_dict(d)), ("instance", cls().from_dict(d))):
                    if getattr(back, py) != 7 or bytes(back) != bytes(m):
                        bad(f"{label}-dropped", f"from_dict({d!r}) [{how}] lost field {py!r}")
            for label in ("proto-name", "protoc-json-name"):
                back = cls().from_dict({keys[label]: 7})
                t.inc("edges")
                if getattr(back, py) != 7:
                    if label == "protoc-json-name":
                        # protoc's json_name is not among the keys the property lists
                        # (it matters for C05); recorded, not alarmed
                        t.inc("protoc_json_name_not_accepted_recorded")
                    else:
                        bad(f"{label}-dropped", f"from_dict({{{keys[label]!r}: 7}}) lost field {py!r}")
        except Exception as e:
            if py in MESSAGE_ATTRS:
                # the field replaces an attribute of Message itself (dump, parse, from_dict ...): the
                # class cannot encode or read JSON any more.  One recorded finding, by python name.
                out.append(Violation(["names", "shadows-message-attribute", py],
                                     f"identifier {name!r} becomes field {py!r}, which replaces Message.{py}: {type(e).__name__}: {e}"[:300],
                                     {"name": name}))
            else:
                bad("class-raised", f"{type(e).__name__}: {e}")
    # dedupe
    seen, uniq = set(), []
    for v in out:
        k = tuple(v.signature)
        if k not in seen:
            seen.add(k)
            uniq.append(v)
    return uniq


def field_keys(name: str):
    """(python field name, the keys that must map back to it) or None when the name is unusable."""
    try:
        py = naming.pythonize_field_name(name)
    except Exception:
        return None
    if not safe(py):
        return None
    return py, {casing.camel_case(py).rstrip("_"), casing.snake_case(py).rstrip("_"), name, py}


def pair_groups(maxlen: int):
    """Identifiers that are equal up to letter case and underscores, grouped."""
    import collections
    g = collections.defaultdict(list)
    for n in identifiers(maxlen):
        g[n.replace("_", "").lower()].append(n)
    return [v for _, v in sorted(g.items()) if len(v) > 1]


def check_pair(a: str, b: str, t: Tally) -> List[Violation]:
    """Two fields of ONE message whose names differ only in case / underscores: every key of each
    still maps back to its own field (pairs whose legitimate keys coincide are skipped: protoc
    rejects those for their conflicting JSON names)."""
    out: List[Violation] = []
    ka, kb = field_keys(a), field_keys(b)
    if ka is None or kb is None or ka[0] == kb[0]:
        return out
    if ka[1] & kb[1]:
        # a DERIVED key of one field coincides with a key of the other (line_1 -> 'line1' next to
        # line1; protoc rejects such pairs in .proto files, hand-written classes can have them):
        # derived keys are then ambiguous, but each field's OWN name still belongs to that field,
        # whatever the declaration order
        return check_own_names(a, b, ka, kb, t) + check_own_names(b, a, kb, ka, t)
    t.inc("pairs")

    def bad(oracle: str, detail: str):
        out.append(Violation(["names", oracle, "pair:" + shape(a) + "+" + shape(b)],
                             f"fields {a!r} and {b!r} in one message: {detail}"[:400], {"pair": [a, b]}))

    import dataclasses
    try:
        cls = dataclasses.make_dataclass(
            "N2", [(ka[0], int, betterproto.int32_field(1)), (kb[0], int, betterproto.int32_field(2))],
            bases=(betterproto.Message,), eq=False, repr=False)
        cls.__module__ = "vf_c19_mod"
        m = cls(**{ka[0]: 7, kb[0]: 9})
        for cs in (betterproto.Casing.CAMEL, betterproto.Casing.SNAKE):
            d = m.to_dict(casing=cs)
            back = cls().from_dict(d)
            t.inc("edges", 2)
            if len(d) != 2 or getattr(back, ka[0]) != 7 or getattr(back, kb[0]) != 9:
                bad("pair-round-trip", f"to_dict({cs.__name__ if hasattr(cs, '__name__') else cs}) = {d!r} reads back as {back!r}")
        for (py, keys), (opy, _), val in ((ka, kb, 7), (kb, ka, 9)):
            for k in sorted(keys):
                back = cls().from_dict({k: val})
                t.inc("edges")
                if getattr(back, py) != val or getattr(back, opy) != 0:
                    bad("pair-key-misrouted", f"from_dict({{{k!r}: {val}}}) gives {back!r}; the key belongs to field {py!r}")
    except Exception as e:
        bad("pair-raised", f"{type(e).__name__}: {e}")
    seen, uniq = set(), []
    for v in out:
        k = tuple(v.signature)
        if k not in seen:
            seen.add(k)
            uniq.append(v)
    return uniq


def check_own_names(a: str, b: str, ka, kb, t: Tally) -> List[Violation]:
    import dataclasses
    out: List[Violation] = []
    # (own name = the python field name: a message class does not know the .proto spelling, which
    # may itself be a derived key of the other field - 'a1AB' is camelCase of a1_a_b)
    own_a = {ka[0]}
    own_b = {kb[0]}
    if not own_a or not own_b:
        return out
    t.inc("clashing_pairs")
    try:
        cls = dataclasses.make_dataclass(
            "N2c", [(ka[0], int, betterproto.int32_field(1)), (kb[0], int, betterproto.int32_field(2))],
            bases=(betterproto.Message,), eq=False, repr=False)
        cls.__module__ = "vf_c19_mod"
        for (py, keys), (opy, _), val in (((ka[0], own_a), (kb[0], None), 7), ((kb[0], own_b), (ka[0], None), 9)):
            for k in sorted(keys):
                back = cls().from_dict({k: val})
                t.inc("edges")
                if getattr(back, py) != val or getattr(back, opy) != 0:
                    out.append(Violation(["names", "own-name-misrouted", "pair:" + shape(a) + "+" + shape(b)],
                                         f"fields {a!r} then {b!r} in one message: from_dict({{{k!r}: {val}}}) gives {back!r}; "
                                         f"{k!r} is the own name of field {py!r}"[:400], {"pair": [a, b], "clash": True}))
    except Exception as e:
        out.append(Violation(["names", "pair-raised", "pair:" + shape(a) + "+" + shape(b)],
                             f"fields {a!r} and {b!r}: {type(e).__name__}: {e}"[:300], {"pair": [a, b], "clash": True}))
    return out[:1]


def _shard_pairs(shard: int, nshards: int, maxlen: int) -> Tally:
    import sys, types
    sys.modules.setdefault("vf_c19_mod", types.ModuleType("vf_c19_mod"))
    t = Tally()
    i = 0
    for grp in pair_groups(maxlen):
        for x in range(len(grp)):
            for y in range(x + 1, len(grp)):
                i += 1
                if i % nshards != shard:
                    continue
                for v in check_pair(grp[x], grp[y], t):
                    t.violate(v, cap_per_sig=1)
    return t


def _shard(shard: int, nshards: int, maxlen: int) -> Tally:
    import sys, types
    sys.modules.setdefault("vf_c19_mod", types.ModuleType("vf_c19_mod"))
    t = Tally()
    i = 0
    for name in itertools.chain(special_names(), identifiers(maxlen)):
        i += 1
        if i % nshards != shard:
            continue
        t.inc("names")
        build = True
        for v in check_name(name, t, build):
            t.violate(v, cap_per_sig=1)
        t.mark("shapes", shape(name))
        if i % 20011 == 0:
            t.sample({"identifier": name, "field": naming.pythonize_field_name(name),
                      "camel_key": casing.camel_case(naming.pythonize_field_name(name))})
    return t


def run(ctx: Ctx) -> None:
    maxlen = 6 if ctx.quick else 7
    t = merge_tallies(pmap_shards(_shard, 64, maxlen))
    pair_len = 4 if ctx.quick else 5
    tp = merge_tallies(pmap_shards(_shard_pairs, 64, pair_len))
    for vj in t.violations + tp.violations:
        ctx.add(Violation.from_json(vj))
    ctx.coverage.update(
        states=t.n.get("names", 0),
        transitions=t.n.get("edges", 0),
        traces_validated_against_impl=t.n.get("names", 0),
        exhaustive=True,
        identifiers=t.n.get("names", 0),
        max_identifier_length=maxlen,
        real_classes_built=t.n.get("classes", 0) + tp.n.get("pairs", 0),
        two_field_messages=tp.n.get("pairs", 0),
        two_field_rule="all pairs of identifiers of length <= %d that are equal up to letter case and "
                       "underscores and whose legitimate keys are disjoint, as two fields of one message" % pair_len,
        identifier_shapes=len(t.sets.get("shapes", ())),
        protoc_json_name_not_accepted_recorded=t.n.get("protoc_json_name_not_accepted_recorded", 0),
        samples=t.samples or [{"identifier": "address_line_1"}],
        rule="state = one proto identifier (all of length <= %d over {a,b,A,B,0,1,_} + keywords + "
             "builtins + corpus); edges = the four pythonize_* functions (validity, idempotence) and the "
             "four keys (camel, snake, proto name, protoc json_name) mapped back through from_dict" % maxlen,
    )
    ctx.assumptions += [
        "every identifier is bound to a real one-field message class built with the public field API "
        "(field named as the plugin would name it); the plugin itself is exercised in C03/C18",
    ]


def replay(case: dict) -> List[Violation]:
    import sys, types
    sys.modules.setdefault("vf_c19_mod", types.ModuleType("vf_c19_mod"))
    if "pair" in case:
        return check_pair(case["pair"][0], case["pair"][1], Tally())
    return check_name(case["name"], Tally(), True)
