"""C10 delimited streams read back intact; truncation never yields a partial message.

Space: ALL sequences of length <= 3 (quick) / <= 4 (thorough) over a 9-message
alphabet (empty, scalar, string, nested, packed, with-unknown-for-the-older-reader,
second type, long), reader schema in {same, older}, and for every stream EVERY cut
point 0..len; plus, on the uncut stream, every schedule of at most two short read()
answers (deviation-bounded environment).
"""
from __future__ import annotations

import io
import itertools
from typing import Any, Dict, List, Tuple

import betterproto
from google.protobuf import proto as refproto

from vf.core import absval as av
from vf.core import wire
from vf.core.runner import Ctx, HarnessError, Tally, Violation, merge_tallies, pmap_shards
from vf.core.schema import Field, Msg, Schema, build_bp, build_ref
from vf.core.universe import LIB_MSGS, COLOR

LEVEL = "fault_enumeration"

W_FIELDS = (
    Field("a", 1, "int32"), Field("s", 2, "string"), Field("sub", 3, "msg:Sub"),
    Field("r", 4, "int32", "repeated"), Field("extra", 5, "int64"), Field("o", 6, "int32", "optional"),
    Field("m", 7, "string", "map", key="string"), Field("t", 8, "timestamp"), Field("w", 9, "wrap:double"),
)
SCHEMA = Schema("vfc10", (COLOR,), LIB_MSGS + (
    Msg("W", W_FIELDS),
    Msg("WOld", W_FIELDS[:4]),          # older reader: no 'extra', no 'o'
    Msg("W2", (Field("name", 1, "string"),)),
))
ALPHABET: List[Tuple[str, Dict[str, Any], str]] = [
    ("W", {}, "empty"),
    ("W", {"a": 1}, "scalar"),
    ("W", {"s": "héllo"}, "string"),
    ("W", {"sub": {"a": 1}}, "nested"),
    ("W", {"r": [1, 300]}, "packed"),
    ("W", {"a": 7, "extra": 99, "o": 0}, "unknown-for-older"),
    ("W2", {"name": "x"}, "second-type"),
    ("W", {"s": "x" * 200}, "long"),
    ("W", {"m": {"": "", "k": "v"}}, "map-with-default-entry"),
    # sizes computed by a path of their own: a Timestamp just before the epoch (negative seconds,
    # positive nanos) and a wrapper holding -0.0
    ("W", {"t": av.EPOCH - av.US, "w": -0.0}, "time-and-wrapper"),
]
_S: Dict[str, Any] = {}


def state():
    if not _S:
        _S["bp"] = build_bp(SCHEMA, "vf_c10")
        _S["ref"] = build_ref(SCHEMA)
    return _S["bp"], _S["ref"]


def reader_cls(bp, tname: str, reader: str):
    if reader == "older" and tname == "W":
        return bp.WOld, SCHEMA.msg("WOld")
    return getattr(bp, tname), SCHEMA.msg(tname)


def eval_sequence(seq: Tuple[int, ...], reader: str, tally: Tally) -> List[Violation]:
    bp, ref = state()
    out: List[Violation] = []
    labels = [ALPHABET[i][2] for i in seq]

    def bad(oracle: str, detail: str, extra: Dict[str, Any]):
        case = {"seq": list(seq), "reader": reader}
        case.update(extra)
        out.append(Violation(["stream", oracle, reader] + sorted(set(extra.get("involved", labels))),
                             f"seq={labels} reader={reader}: {detail}"[:500], case))

    msgs = []
    bodies = []
    stream = io.BytesIO()
    for i in seq:
        tname, aval, _ = ALPHABET[i]
        try:
            m = av.make_bp(bp, SCHEMA, SCHEMA.msg(tname), aval, "ctor")
            msgs.append(m)
            bodies.append(bytes(m))
            m.dump(stream, betterproto.SIZE_DELIMITED)
        except Exception as e:
            bad("dump-raised", f"writing message {ALPHABET[i][2]}: {type(e).__name__}: {e}", {"involved": [ALPHABET[i][2]]})
            return out
        tally.inc("edges")
    full = stream.getvalue()
    if len(seq) >= 2 and reader == "same":
        # re-use ONE live object for the whole sequence: write it, change it in place, write again
        reuse = bp.W()
        s2 = io.BytesIO()
        want2 = b""
        for i in seq:
            tname, aval, _ = ALPHABET[i]
            if tname != "W":
                reuse = None
                break
            for fname, val in aval.items():
                f = SCHEMA.msg("W").field(fname)
                if f.card == "repeated":
                    getattr(reuse, fname).extend(val)
                elif f.card == "map":
                    getattr(reuse, fname).update(val)
                elif f.base == "msg":
                    for k2, v2 in val.items():
                        setattr(getattr(reuse, fname), k2, v2)
                else:
                    setattr(reuse, fname, val)
            reuse.dump(s2, betterproto.SIZE_DELIMITED)
            want2 += wire.delimited(bytes(reuse))
        if reuse is not None and s2.getvalue() != want2:
            bad("framing-reused-object", f"one object changed in place and dumped repeatedly: stream {s2.getvalue().hex()[:80]} != {want2.hex()[:80]}", {})
    # framing = varint length prefix (wire model) = what the reference writes
    want = b"".join(wire.delimited(b) for b in bodies)
    refout = io.BytesIO()
    for i in seq:
        tname, aval, _ = ALPHABET[i]
        refproto.serialize_length_prefixed(av.make_ref(SCHEMA, ref, SCHEMA.msg(tname), aval), refout)
    # the reference's own stream (its bodies may legally differ in encoding, e.g. map entries
    # with explicit default key/value) must be framed as the wire model says and be readable
    try:
        ref_bodies = wire.split_delimited(refout.getvalue())
    except wire.WireError as e:
        raise HarnessError(f"wire model cannot split the reference's length-prefixed stream: {e}")
    if len(ref_bodies) != len(seq):
        raise HarnessError("wire model and reference disagree on length-prefixed framing")
    rs2 = io.BytesIO(refout.getvalue())
    for k, i in enumerate(seq):
        tname, aval, _ = ALPHABET[i]
        cls_k, mdef_k = reader_cls(bp, tname, "same")
        try:
            got = cls_k().load(rs2, betterproto.SIZE_DELIMITED)
            tally.inc("edges")
            if not av.aval_eq(av.project_bp(SCHEMA, mdef_k, got), av.normalize(SCHEMA, mdef_k, aval)):
                bad("reads-reference-stream", f"message {k} of the reference-written stream read as {got!r}", {"involved": [labels[k]]})
                break
        except Exception as e:
            bad("reads-reference-stream", f"message {k} of the reference-written stream: {type(e).__name__}: {e}", {"involved": [labels[k]]})
            break
    if full != want:
        bad("framing", f"stream {full.hex()[:80]} != length-prefixed bodies {want.hex()[:80]}", {})
        return out
    # the reference reads the betterproto stream
    rs = io.BytesIO(full)
    for k, i in enumerate(seq):
        tname, aval, _ = ALPHABET[i]
        try:
            r = refproto.parse_length_prefixed(ref.cls(tname), rs)
            if r is None or not av.aval_eq(av.project_ref(SCHEMA, SCHEMA.msg(tname), r),
                                           av.normalize(SCHEMA, SCHEMA.msg(tname), aval)):
                bad("ref-reads", f"reference reads message {k} differently", {"involved": [labels[k]]})
        except Exception as e:
            bad("ref-reads", f"reference fails on message {k}: {e}", {"involved": [labels[k]]})
    bounds = []
    pos = 0
    for b in bodies:
        pos += len(wire.delimited(b))
        bounds.append(pos)
    # every cut point (len(full) = uncut)
    for cut in range(len(full), -1, -1):
        tally.inc("cuts")
        s = io.BytesIO(full[:cut])
        for k, i in enumerate(seq):
            tname, aval, _ = ALPHABET[i]
            cls, mdef = reader_cls(bp, tname, reader)
            whole = bounds[k] <= cut
            try:
                got = cls().load(s, betterproto.SIZE_DELIMITED)
                tally.inc("edges")
            except Exception as e:
                if whole:
                    bad("intact-message-not-read",
                        f"cut={cut}/{len(full)}: message {k} lies wholly before the cut but load raised {type(e).__name__}: {e}",
                        {"cut": cut, "k": k, "involved": [labels[j] for j in range(k + 1)][-2:]})
                break
            # returned: must equal the written message, and consume exactly its bytes
            try:
                same = bytes(got) == bodies[k]
                if same and reader == "same":
                    same = got == msgs[k]
                if same:
                    exp = av.normalize(SCHEMA, mdef, {kk: vv for kk, vv in aval.items()
                                                       if any(f.name == kk for f in mdef.fields)})
                    same = av.aval_eq(av.project_bp(SCHEMA, mdef, got), exp)
            except Exception as e:
                same = False
            if not same:
                oracle = "partial-message" if not whole else "wrong-message"
                bad(oracle, f"cut={cut}/{len(full)}: load {k} returned {got!r} instead of {msgs[k]!r}",
                    {"cut": cut, "k": k, "involved": [labels[j] for j in range(k + 1)][-2:]})
                break
            if s.tell() != bounds[k]:
                bad("consumed", f"cut={cut}: after load {k} stream at {s.tell()}, boundary is {bounds[k]}",
                    {"cut": cut, "k": k, "involved": [labels[j] for j in range(k + 1)][-2:]})
                break
    # environment answers: a stream may legally return FEWER bytes than asked for without being
    # at its end (raw files, sockets, pipes: io.RawIOBase.read).  Every read call asking for >= 2
    # bytes is a choice point; all schedules with at most 2 short answers, each answer either
    # "1 byte" or "all but one byte", are explored; the whole data is there, so every message must
    # be read back.
    probe = _ShortReader(full, {}, "one")
    try:
        for k, i in enumerate(seq):
            cls, mdef = reader_cls(bp, ALPHABET[i][0], reader)
            cls().load(probe, betterproto.SIZE_DELIMITED)
        points = probe.points
    except Exception:
        points = []  # the uncut stream does not load at all: reported by the cut loop above
    schedules = [()] + [(p,) for p in points] + list(itertools.combinations(points, 2))
    for sched in schedules:
        for mode in ("one", "allbutone"):
            if not sched and mode != "one":
                continue
            tally.inc("short_read_schedules")
            s = _ShortReader(full, set(sched), mode)
            for k, i in enumerate(seq):
                tname, aval, _ = ALPHABET[i]
                cls, mdef = reader_cls(bp, tname, reader)
                try:
                    got = cls().load(s, betterproto.SIZE_DELIMITED)
                    tally.inc("edges")
                    ok = bytes(got) == bodies[k] and s.tell() == bounds[k]
                    detail = f"returned {got!r} at offset {s.tell()}"
                except Exception as e:
                    ok = False
                    detail = f"raised {type(e).__name__}: {e}"
                if not ok:
                    bad("short-read", f"stream answering read calls {list(sched)} short ({mode}) although all data is "
                        f"available: load {k} {detail}; written {msgs[k]!r}",
                        {"short": list(sched), "mode": mode, "k": k, "involved": [labels[k]]})
                    break
    # the same through real io.BufferedReader objects of every small buffer size over a raw
    # stream (length prefixes and fields then straddle the reader's refills)
    for bufsize in (1, 2, 3, 5, 8, 13):
        tally.inc("buffered_readers")
        s = io.BufferedReader(io.BytesIO(full), buffer_size=bufsize)
        for k, i in enumerate(seq):
            tname, aval, _ = ALPHABET[i]
            cls, mdef = reader_cls(bp, tname, reader)
            try:
                got = cls().load(s, betterproto.SIZE_DELIMITED)
                tally.inc("edges")
                ok = bytes(got) == bodies[k] and s.tell() == bounds[k]
                detail = f"returned {got!r} at offset {s.tell()}"
            except Exception as e:
                ok = False
                detail = f"raised {type(e).__name__}: {e}"
            if not ok:
                bad("buffered-reader", f"io.BufferedReader(buffer_size={bufsize}) over the intact stream: load {k} {detail}; "
                    f"written {msgs[k]!r}", {"bufsize": bufsize, "k": k, "involved": [labels[k]]})
                break
    # raw (unbuffered) streams: an io.RawIOBase object over the bytes, and a real io.FileIO on a pipe
    for kind in ("rawiobase", "fileio-pipe"):
        tally.inc("raw_streams")
        wfd = None
        if kind == "rawiobase":
            s = _RawBytes(full)
        else:
            import os
            rfd, wfd = os.pipe()
            os.write(wfd, full)
            os.close(wfd)
            s = os.fdopen(rfd, "rb", buffering=0)
        try:
            consumed = 0
            for k, i in enumerate(seq):
                tname, aval, _ = ALPHABET[i]
                cls, mdef = reader_cls(bp, tname, reader)
                try:
                    got = cls().load(s, betterproto.SIZE_DELIMITED)
                    tally.inc("edges")
                    ok = bytes(got) == bodies[k] and (kind != "rawiobase" or s.tell() == bounds[k])
                    detail = f"returned {got!r}"
                except Exception as e:
                    ok = False
                    detail = f"raised {type(e).__name__}: {e}"
                if not ok:
                    bad("raw-stream", f"{kind} over the intact stream: load {k} {detail}; written {msgs[k]!r}",
                        {"stream": kind, "k": k, "involved": [labels[k]]})
                    break
            else:
                rest = s.read()
                if rest:
                    bad("raw-stream", f"{kind}: {len(rest)} bytes left after the last message", {"stream": kind})
        finally:
            s.close()
    # dedupe by signature within this sequence
    seen = set()
    uniq = []
    for v in out:
        key = tuple(v.signature)
        if key not in seen:
            seen.add(key)
            uniq.append(v)
    return uniq


class _RawBytes(io.RawIOBase):
    """A real io.RawIOBase (unbuffered) stream over bytes."""

    def __init__(self, data: bytes):
        super().__init__()
        self._data, self._pos = data, 0

    def readable(self) -> bool:
        return True

    def readinto(self, b) -> int:
        chunk = self._data[self._pos:self._pos + len(b)]
        b[:len(chunk)] = chunk
        self._pos += len(chunk)
        return len(chunk)

    def tell(self) -> int:
        return self._pos


class _ShortReader:
    """A readable stream over ``data`` that answers the read calls numbered in ``short`` (counting
    only calls that ask for >= 2 bytes and have >= 2 bytes left) with fewer bytes than asked."""

    def __init__(self, data: bytes, short, mode: str):
        self.data, self.pos, self.short, self.mode = data, 0, short, mode
        self.calls = 0
        self.points: List[int] = []

    def read(self, n: int = -1) -> bytes:
        avail = len(self.data) - self.pos
        if n is None or n < 0:
            n = avail
        n = min(n, avail)
        if n >= 2:
            idx = self.calls
            self.calls += 1
            self.points.append(idx)
            if idx in self.short:
                n = 1 if self.mode == "one" else n - 1
        out = self.data[self.pos:self.pos + n]
        self.pos += n
        return out

    # the rest of the buffered-reader interface, with the answers io.BufferedReader may give:
    # peek() returns AT LEAST one byte (unless at the end), possibly fewer than asked for, and
    # does not advance; read1() is a read that may be short; readinto() fills a prefix
    def peek(self, n: int = 0) -> bytes:
        avail = len(self.data) - self.pos
        k = min(max(n, 1), avail)
        if k >= 2:
            idx = self.calls
            self.calls += 1
            self.points.append(idx)
            if idx in self.short:
                k = 1 if self.mode == "one" else k - 1
        return self.data[self.pos:self.pos + k]

    def read1(self, n: int = -1) -> bytes:
        return self.read(n)

    def readinto(self, b) -> int:
        got = self.read(len(b))
        b[:len(got)] = got
        return len(got)

    def readable(self) -> bool:
        return True

    def tell(self) -> int:
        return self.pos


FRAMING_SIZES = sorted({n + d for n in (2**7, 2**13, 2**14, 2**20, 2**21) for d in (-1, 0, 1)} | {0, 1, 300, 8192, 12000, 16383})


def check_framing_sizes(tally: Tally) -> List[Violation]:
    """The length prefix at every size around the varint boundaries (1, 2, 3, 4 bytes; also sizes
    whose bit length is a multiple of 7): betterproto's delimited dump must equal the wire model's
    and the reference's framing byte for byte, and be read back."""
    bp, ref = state()
    out: List[Violation] = []
    for n in FRAMING_SIZES:
        tally.inc("framing_sizes")
        if n == 0:
            aval: Dict[str, Any] = {}
        elif n == 1:
            continue  # no message of W encodes to a single byte
        else:
            # field 2 (string): 1 tag byte + length varint + payload
            k = n - 1 - wire.varint_len(n - 3 if n - 3 >= 0 else 0)
            for kk in (k, k - 1, k + 1, k - 2, k + 2):
                if kk >= 0 and 1 + wire.varint_len(kk) + kk == n:
                    k = kk
                    break
            else:
                continue
            aval = {"s": "x" * k}
        try:
            m = av.make_bp(bp, SCHEMA, SCHEMA.msg("W"), aval, "ctor")
            body = bytes(m)
            if len(body) != n:
                raise HarnessError(f"framing size construction: wanted {n} bytes, built {len(body)}")
            s = io.BytesIO()
            m.dump(s, betterproto.SIZE_DELIMITED)
            got = s.getvalue()
            want = wire.delimited(body)
            refout = io.BytesIO()
            refproto.serialize_length_prefixed(av.make_ref(SCHEMA, ref, SCHEMA.msg("W"), aval), refout)
            if refout.getvalue() != want:
                raise HarnessError("wire model and reference disagree on the length prefix of a %d-byte message" % n)
            if got != want:
                out.append(Violation(["stream", "framing-size", f"prefix-bytes-{wire.varint_len(n)}"],
                                     f"message of {n} bytes: delimited dump starts {got[:6].hex()}, reference framing {want[:6].hex()} "
                                     f"(stream {len(got)} bytes, expected {len(want)})", {"framing_size": n}))
                continue
            back = bp.W().load(io.BytesIO(got), betterproto.SIZE_DELIMITED)
            if bytes(back) != body:
                out.append(Violation(["stream", "framing-size-readback", f"prefix-bytes-{wire.varint_len(n)}"],
                                     f"message of {n} bytes is not read back", {"framing_size": n}))
        except HarnessError:
            raise
        except Exception as e:
            out.append(Violation(["stream", "framing-size-raised", f"prefix-bytes-{wire.varint_len(n)}"],
                                 f"message of {n} bytes: {type(e).__name__}: {e}"[:300], {"framing_size": n}))
    return out


def sequences(maxlen: int):
    n = len(ALPHABET)
    for ln in range(1, maxlen + 1):
        yield from itertools.product(range(n), repeat=ln)


def _shard(shard: int, nshards: int, maxlen: int) -> Tally:
    t = Tally()
    reported = set()
    i = 0
    for seq in sequences(maxlen):
        for reader in ("same", "older"):
            i += 1
            if i % nshards != shard:
                continue
            t.inc("streams")
            t.mark("distinct", (seq, reader))
            for v in eval_sequence(seq, reader, t):
                t.violate(v, cap_per_sig=1)
            if i % 211 == 0:
                t.sample({"sequence": [ALPHABET[j][2] for j in seq], "reader": reader, "cuts": "every byte offset"})
    return t


def run(ctx: Ctx) -> None:
    state()
    maxlen = 3 if ctx.quick else 4
    t = merge_tallies(pmap_shards(_shard, 64, maxlen))
    # shortest witnesses first: a sequence failing because of a shorter one is still reported
    # with its own signature (signatures name only the messages involved)
    for vj in t.violations:
        ctx.add(Violation.from_json(vj))
    tf = Tally()
    seen_f = set()
    for v in check_framing_sizes(tf):
        if tuple(v.signature) not in seen_f:
            seen_f.add(tuple(v.signature))
            ctx.add(v)
    ctx.coverage.update(framing_sizes=tf.n.get("framing_sizes", 0))
    ctx.coverage.update(
        evaluations=t.n.get("cuts", 0),
        distinct_nontrivial=len(t.sets.get("distinct", ())),
        rule="all message sequences of length <= %d over a 9-message alphabet x {same, older} reader; "
             "non-trivial/distinct = distinct (sequence, reader) pairs, each evaluated at every cut "
             "point 0..len(stream) (evaluations = stream prefixes loaded)" % maxlen,
        streams=t.n.get("streams", 0),
        loads=t.n.get("edges", 0),
        short_read_schedules=t.n.get("short_read_schedules", 0),
        exhaustive=True,
        samples=t.samples,
    )
    ctx.assumptions += ["message alphabet of 8; reader schema same or older (two trailing fields removed)"]


def replay(case: dict) -> List[Violation]:
    state()
    if "framing_size" in case:
        return [v for v in check_framing_sizes(Tally()) if v.case == case]
    vs = eval_sequence(tuple(case["seq"]), case["reader"], Tally())
    return vs
