"""C09 len(m) == len(bytes(m)); dump() writes exactly bytes(m); SIZE_DELIMITED prefix."""
from __future__ import annotations

import io
from typing import Any, Dict, List

import betterproto

from vf.core import absval as av
from vf.core import wire
from vf.core.runner import Ctx, Tally
from vf.core.smallscope import Fail, hkey, replay_case, run_universe
from vf.core.universe import TypeCase, Universe, fresh_variant, get_universe, lazy_variant

LEVEL = "model_checking"
ROUTES = ("ctor", "setattr", "inplace", "parse", "parse_unknown", "grow_after_len")

UNKNOWN = [
    wire.make_rec(7, wire.VARINT, 300, val_pad=4),            # legal non-minimal encodings: the raw
    wire.make_rec(8, wire.LEN, b"\x08\x01xyz", len_pad=2, tag_pad=3),   # bytes are kept, so they count
    wire.make_rec(9, wire.FIXED32, b"\x01\x02\x03\x04"),
    wire.make_rec(10, wire.FIXED64, b"\x01\x02\x03\x04\x05\x06\x07\x08"),
]


def build(u: Universe, tc: TypeCase, aval, route: str):
    cls = getattr(u.bp, tc.msg.name)
    if route == "grow_after_len":
        # size once, then change the value IN PLACE (list append, map insert, assignment inside a
        # lazily read sub-message): the size must follow
        m = av.make_bp(u.bp, u.schema, tc.msg, {}, "ctor")
        len(m)
        import io as _io
        m.dump(_io.BytesIO(), betterproto.SIZE_DELIMITED)
        for f in tc.msg.fields:
            if f.name not in aval:
                continue
            v = aval[f.name]
            if f.card == "repeated":
                for x in v:
                    getattr(m, f.name).append(av._bp_single(u.bp, u.schema, f, x, "inplace"))
                    len(m)
            elif f.card == "map":
                for k, x in v.items():
                    getattr(m, f.name)[k] = av._bp_single(u.bp, u.schema, f, x, "inplace")
                    len(m)
            elif f.card == "single" and f.base == "msg":
                sub_m = getattr(m, f.name)
                len(m)
                av._bp_fill_inplace(u.bp, u.schema, u.schema.msg(f.kind.split(":", 1)[1]), sub_m, v)
            else:
                setattr(m, f.name, av._bp_container(u.bp, u.schema, f, v, "setattr"))
                len(m)
        return m
    if route in ("parse", "parse_unknown"):
        ref = av.make_ref(u.schema, u.ref, tc.msg, aval)
        data = ref.SerializeToString()
        if route == "parse_unknown":
            recs = wire.tokenize(data)
            mid = len(recs) // 2
            recs = [UNKNOWN[0]] + recs[:mid] + [UNKNOWN[1], UNKNOWN[2]] + recs[mid:] + [UNKNOWN[3]]
            data = wire.join(recs)
        return cls().parse(data)
    return av.make_bp(u.bp, u.schema, tc.msg, aval, route)


class _Sink:
    """Write-only stream (no tell/seek/getvalue)."""

    def __init__(self):
        self.chunks: List[bytes] = []

    def write(self, data) -> int:
        self.chunks.append(bytes(data))
        return len(data)


def oracle(u: Universe, tc: TypeCase, aval: Dict[str, Any], route: str, tally: Tally) -> List[Fail]:
    if route.endswith("@604"):
        # the same type declared with PEP 604 / builtin-generic annotations (plugin option typing.310)
        u, route = u.view604(), route[:-4]
    fails: List[Fail] = []
    try:
        m = build(u, tc, aval, route)
    except Exception as e:
        return [("build", f"{type(e).__name__}: {e}"[:200])]
    try:
        b = bytes(m)
        tally.inc("edges")
    except Exception as e:
        return [("encode", f"{type(e).__name__}: {e}"[:200])]
    try:
        n = len(m)
        tally.inc("edges")
        if n != len(b):
            fails.append(("len", f"len(m)={n} but len(bytes(m))={len(b)} bytes={b.hex()[:60]}"))
    except Exception as e:
        fails.append(("len", f"len(m) raised {type(e).__name__}: {e}"[:200]))
    try:
        s = io.BytesIO()
        m.dump(s)
        tally.inc("edges")
        if s.getvalue() != b:
            fails.append(("dump", f"dump wrote {s.getvalue().hex()[:60]} != bytes {b.hex()[:60]}"))
        s = io.BytesIO()
        m.dump(s, betterproto.SIZE_DELIMITED)
        tally.inc("edges")
        want = wire.delimited(b)
        if s.getvalue() != want:
            fails.append(("delimited", f"delimited dump {s.getvalue().hex()[:60]} != {want.hex()[:60]}"))
        # a stream that only has write() and already holds data: dump appends exactly bytes(m)
        k = _Sink()
        k.write(b"\x7f")
        m.dump(k)
        m.dump(k, betterproto.SIZE_DELIMITED)
        tally.inc("edges", 2)
        if b"".join(k.chunks) != b"\x7f" + b + want:
            fails.append(("dump-sink", f"plain + delimited dump into a write-only stream wrote {b''.join(k.chunks).hex()[:80]}"))
        if m.SerializeToString() != b:
            fails.append(("serialize_to_string", "SerializeToString() != bytes(m)"))
        if bytes(m) != b:
            fails.append(("bytes-unstable", "second bytes(m) differs from the first"))
    except Exception as e:
        fails.append(("dump", f"{type(e).__name__}: {e}"[:200]))
    tally.mark("outcomes", hkey(tc.msg.name, b))
    if len(b) in (0, 127, 128, 129) or len(b) >= 16384:
        tally.inc("boundary_sizes")
    return fails


def routes_fn(tc: TypeCase, aval) -> tuple:
    r = ROUTES
    if any(isinstance(v, (list, dict)) and len(v) > 200 for v in aval.values()):
        # grow_after_len sizes the message after every single append: quadratic, so the 17 000-element
        # values take the other routes only
        r = tuple(x for x in r if x != "grow_after_len")
    if fresh_variant(tc.msg, aval):
        r = r + ("ctor_fresh", "setattr_fresh")
    if lazy_variant(tc.msg, aval):
        r = r + ("lazy",)
    if tc.tag in ("T1", "KS", "TN", "REC"):
        r = r + ("ctor@604", "inplace@604", "parse@604")
    return r


def run(ctx: Ctx) -> None:
    u = get_universe(ctx.tier)
    u.view604()  # built before the workers fork
    t = run_universe(ctx, u, oracle, routes_fn)
    ctx.coverage.update(
        states=t.n.get("cases", 0),
        transitions=t.n.get("edges", 0),
        traces_validated_against_impl=t.n.get("cases", 0),
        exhaustive=True,
        message_types=len(u.types),
        abstract_values=u.count(),
        routes=list(ROUTES),
        distinct_encodings=len(t.sets.get("outcomes", ())),
        cases_at_length_boundaries=t.n.get("boundary_sizes", 0),
        failures_explained_by_restriction=t.n.get("failures_explained_by_restriction", 0),
        samples=t.samples,
        rule="state = (message type, abstract value, route incl. decoded-with-unknown-fields); "
             "edges = bytes, len, dump, delimited dump on the real implementation; the expected "
             "delimiter is the wire model's canonical varint",
    )
    ctx.assumptions += ["value alphabets as C01", "unknown records: one per wire type at field numbers 7-10"]


def replay(case: dict):
    return replay_case(oracle, case, get_universe)
