"""C11 generated gRPC stub and server base agree: calls reach the right handler intact.

Generated code (real plugin) is driven over grpclib's in-process channel
(grpclib.testing.ChannelFor): every method of services covering all four cardinalities,
re-cased method names, cross-package / nested / well-known request and response types,
every stream-length combination 0..2, a 5-value request alphabet, all 64 combinations of
stub-level / call-level timeout, deadline and metadata, and every handler outcome.
"""
from __future__ import annotations

import asyncio
import itertools
from typing import Any, Dict, List, Optional, Tuple

import grpclib
from grpclib.const import Status
from grpclib.events import RecvRequest, listen
from grpclib.metadata import Deadline
from grpclib.testing import ChannelFor

from vf.core import plugin
from vf.core.runner import Ctx, HarnessError, Tally, Violation, merge_tallies, pmap_shards

LEVEL = "exploration"

MAIN = '''syntax = "proto3";
package svc.main;
import "other.proto";
import "google/protobuf/empty.proto";
import "google/protobuf/wrappers.proto";
message Req { int32 q = 1; string s = 2; message Inner { int32 z = 1; } Inner inner = 3; }
message Resp { int32 r = 1; string s = 2; }
service Main {
  rpc DoThing (Req) returns (Resp);
  rpc list_things (Req) returns (stream Resp);
  rpc SENDAll (stream Req) returns (Resp);
  rpc Get2Fa (stream Req) returns (stream Resp);
  rpc CrossPkg (svc.other.OReq) returns (svc.other.OResp);
  rpc NestedT (Req.Inner) returns (stream Req.Inner);
  rpc EmptyIn (google.protobuf.Empty) returns (google.protobuf.StringValue);
  rpc WrapStream (stream google.protobuf.Int32Value) returns (stream google.protobuf.Empty);
  rpc GetHTTPCode (Req) returns (Resp);
}
service Second { rpc DoThing (Req) returns (Resp); rpc Only (Req) returns (Resp); }
'''
OTHER = '''syntax = "proto3";
package svc.other;
message OReq { int32 a = 1; }
message OResp { int32 b = 1; repeated int32 echo = 2; }
'''
# method -> (py name, client streaming, server streaming, request ctor key, response key)
METHODS = {
    "DoThing": ("do_thing", False, False, "Req", "Resp"),
    "list_things": ("list_things", False, True, "Req", "Resp"),
    "SENDAll": ("sendall", True, False, "Req", "Resp"),
    "Get2Fa": ("get2_fa", True, True, "Req", "Resp"),
    "CrossPkg": ("cross_pkg", False, False, "OReq", "OResp"),
    "NestedT": ("nested_t", False, True, "Inner", "Inner"),
    "EmptyIn": ("empty_in", False, False, "Empty", "StringValue"),
    "WrapStream": ("wrap_stream", True, True, "Int32Value", "Empty"),
    "GetHTTPCode": ("get_http_code", False, False, "Req", "Resp"),
}
ROOT = '''syntax = "proto3";
message RootReq { int32 a = 1; }
message RootResp { int32 b = 1; }
service RootSvc { rpc Ping (RootReq) returns (RootResp); rpc Pings (RootReq) returns (stream RootResp);
  // deprecated rpcs in a package that has nothing else deprecated
  rpc OldPing (RootReq) returns (RootResp) { option deprecated = true; }
  rpc OldPings (RootReq) returns (stream RootResp) { option deprecated = true; } }
'''
_G: Dict[str, Any] = {}


def gen():
    if "res" not in _G:
        res = plugin.compile_protos({"main.proto": MAIN, "other.proto": OTHER, "root.proto": ROOT}, tag="c11",
                                    want_descriptor=False)
        if res.rc != 0:
            raise HarnessError("plugin failed on the C11 service schema: " + res.stderr[-300:])
        _G["res"] = res
        _G["main"] = res.module("svc.main")
        _G["other"] = res.module("svc.other")
        _G["root"] = res.module("")
    return _G["main"], _G["other"]


def py_method_names(main) -> Dict[str, str]:
    """Resolve the generated python method for each rpc by its route (independent of casing rules)."""
    from betterproto.compile.naming import pythonize_method_name

    return {m: pythonize_method_name(m) for m in METHODS}


def types(main, other):
    import betterproto.lib.google.protobuf as G

    return {"Req": main.Req, "Resp": main.Resp, "Inner": main.ReqInner, "OReq": other.OReq, "OResp": other.OResp,
            "Empty": G.Empty, "StringValue": G.StringValue, "Int32Value": G.Int32Value}


def req_alphabet(T, key: str) -> List[Any]:
    if key == "Req":
        return [T["Req"](), T["Req"](q=1), T["Req"](q=-1, s="é"), T["Req"](inner=T["Inner"](z=5)),
                T["Req"](q=2**31 - 1, s="x" * 200)]
    if key == "OReq":
        return [T["OReq"](), T["OReq"](a=7)]
    if key == "Inner":
        return [T["Inner"](), T["Inner"](z=3)]
    if key == "Empty":
        return [T["Empty"]()]
    return [T["Int32Value"](), T["Int32Value"](value=9)]


def respond(T, method: str, reqs: List[Any], n_out: int) -> List[Any]:
    """Deterministic response(s) as a function of the request(s)."""
    if method in ("DoThing", "list_things", "SENDAll", "Get2Fa", "GetHTTPCode"):
        base = sum(r.q for r in reqs) % (2**31)
        s = "|".join(r.s for r in reqs)
        return [T["Resp"](r=(base + i) % (2**31 - 1), s=f"{method}:{s}:{i}") for i in range(n_out)]
    if method == "CrossPkg":
        return [T["OResp"](b=reqs[0].a + 1, echo=[reqs[0].a, 2])]
    if method == "NestedT":
        return [T["Inner"](z=reqs[0].z + i + 1) for i in range(n_out)]
    if method == "EmptyIn":
        return [T["StringValue"](value="pong")]
    return [T["Empty"]() for _ in range(n_out)]


import logging
logging.getLogger("grpclib.server").setLevel(logging.CRITICAL)  # the 'err-plain' outcome is logged by grpclib

ERR_MESSAGE = {"err-unicode": "boom: é ☃ \U0001F600 100%"}


def make_service(main, T, outcome: str, n_out: int, record: List[Tuple[str, List[Any]]], svc: str = "Main"):
    Base = getattr(main, svc + "Base")
    names = py_method_names(main)

    def err():
        if outcome == "err-plain":
            return ValueError("boom:" + outcome)  # not a GRPCError: the caller must see UNKNOWN, not a hang
        status = {"err-not-found": Status.NOT_FOUND, "err-invalid": Status.INVALID_ARGUMENT,
                  "err-internal": Status.INTERNAL, "err-unicode": Status.FAILED_PRECONDITION}[outcome]
        return grpclib.GRPCError(status, ERR_MESSAGE.get(outcome, "boom:" + outcome))

    ns: Dict[str, Any] = {}
    for m, (_, cstream, sstream, _, _) in METHODS.items():
        if svc != "Main":
            continue
        py = names[m]

        def build(m=m, cstream=cstream, sstream=sstream):
            if not sstream:
                async def handler(self, arg):
                    reqs = [x async for x in arg] if cstream else [arg]
                    record.append((m, reqs))
                    if outcome.startswith("err"):
                        raise err()
                    return respond(T, m, reqs, 1)[0]
            elif outcome in ("returns-aiter-object", "returns-channel") and not cstream:
                def handler(self, arg):
                    record.append((m, [arg]))
                    outs = respond(T, m, [arg], n_out)
                    if outcome == "returns-channel":
                        from betterproto.grpc.util.async_channel import AsyncChannel
                        ch = AsyncChannel()

                        async def feed():
                            await ch.send_from(outs, close=True)
                        asyncio.ensure_future(feed())
                        return ch

                    class Iter:
                        def __init__(self):
                            self.items = list(outs)

                        def __aiter__(self):
                            return self

                        async def __anext__(self):
                            if not self.items:
                                raise StopAsyncIteration
                            return self.items.pop(0)
                    return Iter()
            elif outcome == "returns-without-yield" and not cstream:
                def handler(self, arg):
                    # a server-streaming method that "just returns": calling it gives a coroutine,
                    # which the server base must treat as an empty response stream
                    record.append((m, [arg]))

                    async def nothing():
                        return None
                    return nothing()
            else:
                async def handler(self, arg):
                    reqs = [x async for x in arg] if cstream else [arg]
                    record.append((m, reqs))
                    outs = respond(T, m, reqs, n_out)
                    for i, o in enumerate(outs):
                        if outcome.startswith("err") and i == min(1, n_out - 1):
                            raise err()
                        yield o
                    if outcome.startswith("err") and n_out == 0:
                        raise err()
            return handler
        if outcome != "not-overridden":
            ns[py] = build()
    if svc == "Second" and outcome != "not-overridden":
        async def do_thing(self, req):
            record.append(("Second.DoThing", [req]))
            return T["Resp"](r=-7, s="second")
        ns["do_thing"] = do_thing
    return type("Rec" + svc, (Base,), ns)()


async def call(stub, py: str, cstream: bool, sstream: bool, reqs: List[Any], as_async: bool, **kw):
    fn = getattr(stub, py)
    if cstream:
        if as_async == "channel":
            from betterproto.grpc.util.async_channel import AsyncChannel
            ch = AsyncChannel()
            await ch.send_from(list(reqs), close=True)
            arg: Any = ch
        elif as_async:
            async def agen():
                for r in reqs:
                    yield r
            arg = agen()
        else:
            arg = list(reqs)
    else:
        arg = reqs[0]
    if sstream:
        got = []
        try:
            async for x in fn(arg, **kw):
                got.append(x)
        except grpclib.GRPCError as e:
            e.partial_responses = got  # what the caller saw before the status arrived
            raise
        return got
    return [await fn(arg, **kw)]


async def one_case(case: Dict[str, Any]) -> List[Tuple[str, str]]:
    main, other = gen()
    T = types(main, other)
    m = case["method"]
    _, cstream, sstream, rk, _ = METHODS[m]
    py = py_method_names(main)[m]
    alpha = req_alphabet(T, rk)
    reqs = [alpha[i % len(alpha)] for i in case["req_idx"]]
    n_out = case["n_out"]
    outcome = case["outcome"]
    record: List[Tuple[str, List[Any]]] = []
    svc = make_service(main, T, outcome, n_out, record)
    second = make_service(main, T, "normal", 1, record, "Second")
    seen_events: List[Any] = []
    out: List[Tuple[str, str]] = []
    cfg = case.get("cfg")
    stub_kw: Dict[str, Any] = {}
    call_kw: Dict[str, Any] = {}
    if cfg:
        s_to, c_to, s_dl, c_dl, s_md, c_md = cfg
        if s_to:
            stub_kw["timeout"] = 10000.0
        if c_to:
            call_kw["timeout"] = 100.0
        if s_dl:
            stub_kw["deadline"] = Deadline.from_timeout(5000.0)
        if c_dl:
            call_kw["deadline"] = Deadline.from_timeout(50.0)
        if s_md:
            stub_kw["metadata"] = {"x-level": "stub", "x-stub": "1"}
        if c_md:
            call_kw["metadata"] = [("x-level", "call"), ("x-call", "1")]
    async with ChannelFor([svc, second]) as channel:
        server = getattr(channel, "_server", None)

        async def on_recv(event):
            seen_events.append((event.method_name, dict(event.metadata), event.deadline))

        listened = False
        for attr in ("_server",):
            pass
        try:
            import grpclib.testing as gt
            # ChannelFor keeps the in-process server on the context manager, not the channel
        except Exception:
            pass
        stub = main.MainStub(channel, **stub_kw)
        try:
            got = await asyncio.wait_for(call(stub, py, cstream, sstream, reqs, case["as_async"], **call_kw), 40)
            raised = None
        except grpclib.GRPCError as e:
            got, raised = None, e
        except asyncio.TimeoutError:
            return [("hang", "call did not complete within 40 s")]
        except Exception as e:
            return [("client-raised", f"{type(e).__name__}: {e}"[:200])]
    want_reqs = reqs if cstream else reqs[:1]
    if outcome == "not-overridden":
        if raised is None or raised.status != Status.UNIMPLEMENTED:
            out.append(("unimplemented", f"not overridden {m}: got {got!r} / {raised!r}"[:300]))
        elif getattr(raised, "partial_responses", None):
            out.append(("unimplemented-after-responses",
                        f"not overridden {m}: caller received {raised.partial_responses!r} before UNIMPLEMENTED"[:300]))
        if record:
            out.append(("invocations", f"a handler ran although none is overridden: {record!r}"[:200]))
        return out
    mine = [r for r in record if r[0] == m]
    if len(record) != 1 or len(mine) != 1:
        out.append(("invocations", f"{m}: handlers invoked: {[r[0] for r in record]}"))
        return out
    if mine[0][1] != want_reqs or [type(x) for x in mine[0][1]] != [type(x) for x in want_reqs]:
        out.append(("request-differs", f"{m}: handler saw {mine[0][1]!r}, caller sent {want_reqs!r}"[:400]))
    if outcome.startswith("err"):
        want_status = {"err-not-found": Status.NOT_FOUND, "err-invalid": Status.INVALID_ARGUMENT,
                       "err-internal": Status.INTERNAL, "err-unicode": Status.FAILED_PRECONDITION,
                       "err-plain": Status.UNKNOWN}[outcome]
        if raised is None or raised.status != want_status:
            out.append(("status", f"{m}: handler raised {want_status}, caller got {got!r} / {raised!r}"[:300]))
        elif outcome != "err-plain" and raised.message != ERR_MESSAGE.get(outcome, "boom:" + outcome):
            out.append(("status-message", f"{m}: message {raised.message!r}"))
        elif sstream:
            before = getattr(raised, "partial_responses", [])
            n_before = min(1, max(n_out - 1, 0)) if n_out else 0
            want_before = respond(T, m, want_reqs, n_out)[:n_before]
            if before != want_before:
                out.append(("responses-before-error", f"{m}: caller received {before!r} before the error, handler yielded {want_before!r}"[:300]))
        return out
    if raised is not None:
        out.append(("unexpected-status", f"{m}: caller got {raised!r}"[:200]))
        return out
    want = respond(T, m, want_reqs, n_out if sstream else 1)
    if outcome == "returns-without-yield":
        want = []
    if got != want or [type(x) for x in got] != [type(x) for x in want]:
        out.append(("response-differs", f"{m}: caller received {got!r}, handler returned {want!r}"[:400]))
    return out


async def precedence_case(case: Dict[str, Any]) -> List[Tuple[str, str]]:
    """Server-side view of timeout / deadline / metadata for one of the 64 combinations."""
    main, other = gen()
    T = types(main, other)
    m = case["method"]
    _, cstream, sstream, rk, _ = METHODS[m]
    py = py_method_names(main)[m]
    s_to, c_to, s_dl, c_dl, s_md, c_md = case["cfg"]
    seen: List[Tuple[Dict[str, str], Optional[float]]] = []
    record: List[Any] = []
    Base = main.MainBase
    svc = make_service(main, T, "normal", 1, record)
    stub_kw: Dict[str, Any] = {}
    call_kw: Dict[str, Any] = {}
    if s_to:
        stub_kw["timeout"] = 10000.0
    if c_to:
        call_kw["timeout"] = 100.0
    if s_dl:
        stub_kw["deadline"] = Deadline.from_timeout(5000.0)
    if c_dl:
        call_kw["deadline"] = Deadline.from_timeout(50.0)
    form = case.get("form", "mapping-stub")
    stub_pairs = [("x-level", "stub"), ("x-stub", "1")]
    call_pairs = [("x-level", "call"), ("x-call", "1")]
    if form == "pairs-repeated-key":
        # metadata is a multi-map: a key may occur more than once, as a list of pairs
        stub_pairs += [("x-multi", "a"), ("x-multi", "b"), ("x-bin-bin", b"\x00\x01")]
        call_pairs += [("x-multi", "c"), ("x-multi", "d")]
    if form in ("empty-call-mapping", "empty-call-pairs"):
        # a call-level value that is given but falsy ({} / []) still replaces the stub-level default
        call_pairs = []
    if s_md:
        stub_kw["metadata"] = dict(stub_pairs) if form == "mapping-stub" else list(stub_pairs)
    if c_md:
        call_kw["metadata"] = {} if form == "empty-call-mapping" else list(call_pairs) if form == "mapping-stub" else (dict(call_pairs) if form == "mapping-call" else list(call_pairs))
    cf = ChannelFor([svc])
    async with cf as channel:
        async def on_recv(event):
            dl = event.deadline.time_remaining() if event.deadline is not None else None
            seen.append((sorted((k, v) for k, v in event.metadata.items() if k.startswith("x-")), dl))
        listen(cf._server, RecvRequest, on_recv)
        stub = main.MainStub(channel, **stub_kw)
        reqs = req_alphabet(T, rk)[:1] * 2
        try:
            await asyncio.wait_for(call(stub, py, cstream, sstream, reqs, False, **call_kw), 40)
        except Exception as e:
            return [("precedence-call-failed", f"{type(e).__name__}: {e}"[:200])]
    out: List[Tuple[str, str]] = []
    if len(seen) != 1:
        return [("precedence-observe", f"{len(seen)} RecvRequest events")]
    md, remaining = seen[0]
    eff_to = 100.0 if c_to else (10000.0 if s_to else None)
    eff_dl = 50.0 if c_dl else (5000.0 if s_dl else None)
    want_md = sorted(call_pairs) if c_md else (sorted(stub_pairs) if s_md else [])
    got_md = md
    if got_md != want_md:
        out.append(("metadata-precedence", f"server saw {got_md!r}, expected {want_md!r} (cfg={case['cfg']})"))
    cands = [x for x in (eff_to, eff_dl) if x is not None]
    if not cands:
        if remaining is not None:
            out.append(("deadline-precedence", f"server saw a deadline ({remaining:.1f}s) although none was set"))
    else:
        want_rem = min(cands)
        if remaining is None or abs(remaining - want_rem) > max(20.0, want_rem * 0.01):
            out.append(("deadline-precedence",
                        f"server saw {remaining!r}s remaining, expected about {want_rem}s (cfg={case['cfg']})"))
    return out


class _Clock:
    """Stands in for the ``time`` module inside grpclib.metadata: Deadline arithmetic reads this
    clock, which the case moves forward by hours without sleeping (the event loop's own clock and
    its timeouts are not affected)."""

    def __init__(self):
        import time as _t
        self._t, self.offset = _t, 0.0

    def monotonic(self) -> float:
        return self._t.monotonic() + self.offset

    def __getattr__(self, name):
        return getattr(self._t, name)


async def reuse_case(case: Dict[str, Any]) -> List[Tuple[str, str]]:
    """ONE stub, several calls, time passing in between: a stub-level TIMEOUT is a per-call budget
    (every call gets the full budget), a stub-level DEADLINE is a fixed point in time."""
    import grpclib.metadata as gm
    main, other = gen()
    T = types(main, other)
    m = case["method"]
    _, cstream, sstream, rk, _ = METHODS[m]
    py = py_method_names(main)[m]
    record: List[Any] = []
    svc = make_service(main, T, "normal", 1, record)
    seen: List[Optional[float]] = []
    clock = _Clock()
    real_time = gm.time
    gm.time = clock
    out: List[Tuple[str, str]] = []
    try:
        cf = ChannelFor([svc])
        async with cf as channel:
            async def on_recv(event):
                seen.append(event.deadline.time_remaining() if event.deadline is not None else None)
            listen(cf._server, RecvRequest, on_recv)
            kw = {"timeout": 10000.0} if case["what"] == "timeout" else {"deadline": Deadline.from_timeout(10000.0)}
            stub = main.MainStub(channel, **kw)
            reqs = req_alphabet(T, rk)[:1] * 2
            for k in range(3):
                try:
                    await asyncio.wait_for(call(stub, py, cstream, sstream, reqs, False), 40)
                except Exception as e:
                    return [("reuse-call-failed", f"call {k + 1} on the same stub: {type(e).__name__}: {e}"[:200])]
                clock.offset += 3000.0   # fifty minutes pass
    finally:
        gm.time = real_time
    want = [10000.0, 10000.0, 10000.0] if case["what"] == "timeout" else [10000.0, 7000.0, 4000.0]
    if len(seen) != 3 or any(s is None or abs(s - w) > 20.0 for s, w in zip(seen, want)):
        out.append(("stub-default-across-calls",
                    f"{m}: stub-level {case['what']} of 10000 s, three calls 3000 s apart: the server saw {seen!r} s remaining, expected about {want}"))
    if len(record) != 3:
        out.append(("invocations", f"{m}: {len(record)} handler invocations for 3 calls"))
    return out


async def concurrent_case(case: Dict[str, Any]) -> List[Tuple[str, str]]:
    """Two calls in flight on ONE stub; the first is abandoned (its task is cancelled) while the
    second still has requests to send: the second must complete intact."""
    main, other = gen()
    T = types(main, other)
    m = case["method"]
    _, cstream, sstream, rk, _ = METHODS[m]
    py = py_method_names(main)[m]
    record: List[Any] = []
    svc = make_service(main, T, "normal", 2, record)
    alpha = req_alphabet(T, rk)
    reqs_a = [alpha[0], alpha[1 % len(alpha)], alpha[0]]
    reqs_b = [alpha[1 % len(alpha)], alpha[0], alpha[1 % len(alpha)]]
    gate = asyncio.Event()

    async def slow(reqs, wait_before_last):
        for i, r in enumerate(reqs):
            if wait_before_last and i == len(reqs) - 1:
                await gate.wait()
            else:
                await asyncio.sleep(0)
            yield r

    async with ChannelFor([svc]) as channel:
        stub = main.MainStub(channel)
        fn = getattr(stub, py)

        async def run(reqs, wait):
            arg = slow(reqs, wait) if cstream else reqs[0]
            if sstream:
                return [x async for x in fn(arg)]
            return [await fn(arg)]

        ta = asyncio.ensure_future(run(reqs_a, True))
        for _ in range(5):
            await asyncio.sleep(0)
        tb = asyncio.ensure_future(run(reqs_b, True))
        for _ in range(5):
            await asyncio.sleep(0)
        ta.cancel()
        for _ in range(5):
            await asyncio.sleep(0)
        gate.set()
        try:
            got_b = await asyncio.wait_for(tb, 40)
        except asyncio.TimeoutError:
            return [("concurrent-call-stuck", f"{m}: the second of two concurrent calls on one stub never finished after the first was cancelled")]
        except Exception as e:
            return [("concurrent-call-failed", f"{m}: second call: {type(e).__name__}: {e}"[:200])]
    want_reqs = reqs_b if cstream else reqs_b[:1]
    mine = [r for r in record if r[0] == m and r[1] == want_reqs]
    out: List[Tuple[str, str]] = []
    if len(mine) != 1:
        out.append(("concurrent-request-differs", f"{m}: handler invocations {record!r}, the surviving call sent {want_reqs!r}"[:400]))
    want = respond(T, m, want_reqs, 2 if sstream else 1)
    if got_b != want:
        out.append(("concurrent-response-differs", f"{m}: surviving call received {got_b!r}, expected {want!r}"[:400]))
    return out


async def bulk_case(case: Dict[str, Any]) -> List[Tuple[str, str]]:
    """A stream whose total volume exceeds the HTTP/2 flow-control windows in BOTH directions
    (400 x 40 kB = 16 MB each way): the client must keep reading while it is still sending."""
    main, other = gen()
    T = types(main, other)
    m = case["method"]
    _, cstream, sstream, rk, _ = METHODS[m]
    py = py_method_names(main)[m]
    n, size = 400, 40_000
    seen: List[int] = []

    async def echo(self, arg):
        async for r in arg:
            seen.append(r.q)
            yield T["Resp"](r=r.q, s=r.s)

    async def collect(self, arg):
        total = 0
        async for r in arg:
            seen.append(r.q)
            total += len(r.s)
        return T["Resp"](r=total % (2**31 - 1), s="")

    async def spray(self, arg):
        seen.append(arg.q)
        for i in range(n):
            yield T["Resp"](r=i, s="y" * size)

    handler = echo if (cstream and sstream) else collect if cstream else spray
    Svc = type("BulkSvc", (main.MainBase,), {py: handler})
    reqs = [T["Req"](q=i, s="x" * size) for i in range(n)]

    async def agen():
        for r in reqs:
            yield r

    async with ChannelFor([Svc()]) as channel:
        stub = main.MainStub(channel)
        fn = getattr(stub, py)
        arg = (reqs if case["source"] == "list" else agen()) if cstream else reqs[0]

        async def run():
            if sstream:
                return [x async for x in fn(arg)]
            return [await fn(arg)]
        try:
            got = await asyncio.wait_for(run(), 120)
        except asyncio.TimeoutError:
            return [("bulk-transfer-stuck", f"{m} ({case['source']} source): {n} x {size} bytes each way did not complete within 120 s "
                     f"(handler had received {len(seen)} requests)")]
        except Exception as e:
            return [("bulk-transfer-failed", f"{m}: {type(e).__name__}: {e}"[:200])]
    if cstream and sstream:
        ok = [x.r for x in got] == list(range(n)) and all(len(x.s) == size for x in got)
    elif cstream:
        ok = len(got) == 1 and got[0].r == (n * size) % (2**31 - 1) and seen == list(range(n))
    else:
        ok = [x.r for x in got] == list(range(n)) and all(len(x.s) == size for x in got)
    return [] if ok else [("bulk-transfer-differs", f"{m}: {len(got)} responses, handler saw {len(seen)} requests")]


async def pingpong_case(case: Dict[str, Any]) -> List[Tuple[str, str]]:
    """A conversation over a bidirectional stream: request i+1 is produced only after response i
    has arrived (the documented AsyncChannel pattern).  Nothing may be held back."""
    from betterproto.grpc.util.async_channel import AsyncChannel
    main, other = gen()
    T = types(main, other)
    py = py_method_names(main)["Get2Fa"]
    seen: List[int] = []

    async def echo(self, arg):
        async for r in arg:
            seen.append(r.q)
            yield T["Resp"](r=r.q + 100, s=r.s)

    Svc = type("PingPongSvc", (main.MainBase,), {py: echo})
    n = case["n"]
    got: List[int] = []
    async with ChannelFor([Svc()]) as channel:
        stub = main.MainStub(channel)
        ch = AsyncChannel()

        async def talk():
            await ch.send(T["Req"](q=0, s="first"))
            async for resp in getattr(stub, py)(ch):
                got.append(resp.r)
                if len(got) < n:
                    await ch.send(T["Req"](q=len(got), s="next"))
                else:
                    ch.close()
        try:
            await asyncio.wait_for(talk(), 40)
        except asyncio.TimeoutError:
            return [("conversation-stuck", f"ping-pong over Get2Fa: after 40 s the caller has {got!r}, the handler saw {seen!r} of {n} requests")]
        except Exception as e:
            return [("conversation-failed", f"{type(e).__name__}: {e}"[:200])]
    if got != [100 + i for i in range(n)] or seen != list(range(n)):
        return [("conversation-differs", f"caller received {got!r}, handler saw {seen!r}")]
    return []


async def root_case(case: Dict[str, Any]) -> List[Tuple[str, str]]:
    """A service in the ROOT package (no proto package): route is /RootSvc/<Method>."""
    gen()
    root = _G["root"]
    record: List[Any] = []

    class Svc(root.RootSvcBase):
        async def ping(self, req):
            record.append(("Ping", req))
            return root.RootResp(b=req.a + 1)

        async def pings(self, req):
            record.append(("Pings", req))
            yield root.RootResp(b=req.a)
            yield root.RootResp(b=req.a + 1)

        async def old_ping(self, req):
            record.append(("OldPing", req))
            return root.RootResp(b=req.a + 1)

        async def old_pings(self, req):
            record.append(("OldPings", req))
            yield root.RootResp(b=req.a)
            yield root.RootResp(b=req.a + 1)

    out: List[Tuple[str, str]] = []
    try:
        async with ChannelFor([Svc()]) as channel:
            stub = root.RootSvcStub(channel)
            req = root.RootReq(a=case["a"])
            import warnings
            with warnings.catch_warnings():
                warnings.simplefilter("ignore")  # the deprecated rpcs warn, by design
                if case["method"] in ("Ping", "OldPing"):
                    fn = stub.ping if case["method"] == "Ping" else stub.old_ping
                    got = [await asyncio.wait_for(fn(req), 40)]
                    want = [root.RootResp(b=case["a"] + 1)]
                else:
                    fn = stub.pings if case["method"] == "Pings" else stub.old_pings
                    got = [x async for x in fn(req)]
                    want = [root.RootResp(b=case["a"]), root.RootResp(b=case["a"] + 1)]
    except Exception as e:
        return [("root-package-call", f"{type(e).__name__}: {e}"[:200])]
    if got != want or record != [(case["method"], req)]:
        out.append(("root-package-call", f"got {got!r} want {want!r}; handler record {record!r}"[:300]))
    return out


def cases(tier: str) -> List[Dict[str, Any]]:
    out: List[Dict[str, Any]] = []
    maxlen = 2 if tier == "quick" else 3
    for m, (_, cstream, sstream, rk, _) in METHODS.items():
        in_lens = range(0, maxlen + 1) if cstream else [1]
        out_lens = range(0, maxlen + 1) if sstream else [1]
        nalpha = {"Req": 5, "OReq": 2, "Inner": 2, "Empty": 1, "Int32Value": 2}[rk]
        for nin in in_lens:
            idx_sets = list(itertools.product(range(nalpha), repeat=nin)) if nin <= 2 else [tuple(range(nin))]
            if not cstream:
                idx_sets = [(i,) for i in range(nalpha)]
            for idx in idx_sets:
                for nout in out_lens:
                    for as_async in ((False, True, "channel") if cstream else (False,)):
                        out.append({"kind": "call", "method": m, "req_idx": list(idx), "n_out": nout,
                                    "outcome": "normal", "as_async": as_async})
        for outcome in ("err-not-found", "err-invalid", "err-internal", "err-unicode", "err-plain", "not-overridden"):
            for nout in (0, 2) if sstream else (1,):
                out.append({"kind": "call", "method": m, "req_idx": [1] if not cstream else [0, 1], "n_out": nout,
                            "outcome": outcome, "as_async": False})
        if sstream and not cstream:
            out.append({"kind": "call", "method": m, "req_idx": [1], "n_out": 0, "outcome": "returns-without-yield",
                        "as_async": False})
            for oc in ("returns-aiter-object", "returns-channel"):
                for nout in (0, 2):
                    out.append({"kind": "call", "method": m, "req_idx": [1], "n_out": nout, "outcome": oc,
                                "as_async": False})
    for rm in ("Ping", "Pings", "OldPing", "OldPings"):
        for a in (0, 7):
            out.append({"kind": "root", "method": rm, "a": a})
    for m in ("DoThing", "list_things", "SENDAll", "Get2Fa"):
        for what in ("timeout", "deadline"):
            out.append({"kind": "reuse", "method": m, "what": what})
        out.append({"kind": "concurrent", "method": m})
    for n in (1, 2, 3):
        out.append({"kind": "pingpong", "method": "Get2Fa", "n": n})
    for m, srcs in (("Get2Fa", ("list", "async")), ("SENDAll", ("list", "async")), ("list_things", ("list",))):
        for src in srcs:
            out.append({"kind": "bulk", "method": m, "source": src})
    for m in ("DoThing", "list_things", "SENDAll", "Get2Fa"):
        for cfg in itertools.product((0, 1), repeat=6):
            out.append({"kind": "precedence", "method": m, "cfg": list(cfg)})
            if cfg[4] or cfg[5]:
                for form in ("mapping-call", "pairs-repeated-key"):
                    out.append({"kind": "precedence", "method": m, "cfg": list(cfg), "form": form})
            if cfg[5]:
                for form in ("empty-call-mapping", "empty-call-pairs"):
                    out.append({"kind": "precedence", "method": m, "cfg": list(cfg), "form": form})
    return out


def sig(case: Dict[str, Any], oracle: str) -> List[str]:
    if case["kind"] == "root":
        return ["grpc", oracle, "root-package", case["method"]]
    if case["kind"] in ("reuse", "concurrent", "bulk", "pingpong"):
        _, cstream, sstream, rk, _ = METHODS[case["method"]]
        return ["grpc", oracle, ("stream" if cstream else "unary") + "-" + ("stream" if sstream else "unary"),
                case["kind"] + ":" + str(case.get("what", case.get("source", case.get("n", ""))))]
    _, cstream, sstream, rk, _ = METHODS[case["method"]]
    card = ("stream" if cstream else "unary") + "-" + ("stream" if sstream else "unary")
    return ["grpc", oracle, card, case.get("outcome", "precedence")]


def _shard(shard: int, nshards: int, tier: str) -> Tally:
    t = Tally()
    cs = cases(tier)
    gen()
    loop = asyncio.new_event_loop()
    hangs = 0
    try:
        for i in range(shard, len(cs), nshards):
            case = cs[i]
            t.inc("calls")
            t.mark("distinct", (case["kind"], case["method"], tuple(case.get("req_idx", ())), case.get("n_out"),
                                case.get("outcome"), str(case.get("as_async")), tuple(case.get("cfg", ())), case.get("a"), case.get("form"), case.get("what"), case.get("source"), case.get("n")))
            try:
                fn = {"precedence": precedence_case, "root": root_case, "reuse": reuse_case,
                      "concurrent": concurrent_case, "bulk": bulk_case, "pingpong": pingpong_case}.get(case["kind"], one_case)
                fails = loop.run_until_complete(fn(case))
            except Exception as e:
                fails = [("harness-raised", f"{type(e).__name__}: {e}"[:300])]
            for oracle, detail in fails:
                t.violate(Violation(sig(case, oracle), f"{detail} -- {case}"[:500], case), cap_per_sig=1)
                if oracle in ("hang", "precedence-call-failed"):
                    hangs += 1
            if hangs >= 3:
                t.inc("shards_stopped_after_hangs")
                break
            if i % 97 == 0:
                t.sample(case)
    finally:
        loop.close()
    return t


def run(ctx: Ctx) -> None:
    t = merge_tallies(pmap_shards(_shard, 32, ctx.tier))
    for vj in t.violations:
        ctx.add(Violation.from_json(vj))
    ctx.coverage.update(
        evaluations=t.n.get("calls", 0),
        distinct_nontrivial=len(t.sets.get("distinct", ())),
        methods=list(METHODS),
        exhaustive=True,
        samples=t.samples,
        rule="one evaluation = one rpc through the generated stub, grpclib's in-process channel and the "
             "generated server base; space = 8 methods (4 cardinalities, re-cased names, cross-package, "
             "nested and well-known types) x all request tuples over the alphabet up to length 2 x all "
             "response-stream lengths x {list, async iterator} sources x handler outcomes {normal, 3 error "
             "statuses, not overridden} + all 64 stub-level/call-level timeout/deadline/metadata "
             "combinations on 4 methods; distinct_nontrivial = distinct such tuples",
    )
    ctx.assumptions += [
        "natural asyncio schedule (the property quantifies programs, inputs and configurations, not schedules)",
        "deadline precedence is observed server-side as time remaining, with a 2 s tolerance",
    ]


def replay(case: dict) -> List[Violation]:
    gen()
    loop = asyncio.new_event_loop()
    try:
        fn = {"precedence": precedence_case, "root": root_case, "reuse": reuse_case,
                      "concurrent": concurrent_case, "bulk": bulk_case, "pingpong": pingpong_case}.get(case["kind"], one_case)
        fails = loop.run_until_complete(fn(case))
    finally:
        loop.close()
    return [Violation(sig(case, o), d, case) for o, d in fails]
