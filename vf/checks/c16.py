"""C16 scalar codec primitives: total, canonical, mutually inverse.

Three-way: wire model (vf/core/wire.py) <-> google.protobuf internals <-> betterproto.
A model/reference disagreement is a harness error, never a violation.
"""
from __future__ import annotations

import io
import itertools
from typing import Any, Dict, List

import betterproto
from google.protobuf.internal import decoder as _refdec
from google.protobuf.internal import encoder as _refenc

from vf.core import absval as av
from vf.core import wire
from vf.core.runner import Ctx, HarnessError, Tally, Violation, merge_tallies, pmap_shards

LEVEL = "model_checking"

_signed_enc = _refenc._SignedVarintEncoder()


def ref_varint(n: int) -> bytes:
    if n < 0:
        out: List[bytes] = []
        _signed_enc(out.append, n)
        return b"".join(out)
    return _refenc._VarintBytes(n)


def iclass(n: int) -> str:
    if n < -(2**63):
        return "below-int64"
    if n < 0:
        return "negative"
    bl = n.bit_length()
    if bl == 0:
        return "zero"
    at = "boundary7" if bl % 7 == 0 or (bl - 1) % 7 == 0 else "inner"
    return f"{at}"


def check_int(n: int, tally: Tally) -> List[Violation]:
    out: List[Violation] = []

    def bad(oracle: str, detail: str):
        out.append(Violation(["varint", oracle, iclass(n)], f"n={n}: {detail}",
                             {"part": "int", "n": str(n)}))

    if n < -(2**63):
        for fn in (betterproto.encode_varint, betterproto.size_varint):
            try:
                r = fn(n)
                bad("reject-below-int64", f"{fn.__name__} returned {r!r} instead of raising")
            except ValueError:
                pass
            except Exception as e:
                bad("reject-below-int64", f"{fn.__name__} raised {type(e).__name__}")
        tally.inc("edges", 2)
        return out
    want = wire.enc_varint(n)
    ref = ref_varint(n)
    if want != ref:
        raise HarnessError(f"wire model and reference disagree on varint({n}): {want.hex()} vs {ref.hex()}")
    try:
        got = betterproto.encode_varint(n)
    except Exception as e:
        bad("encode", f"encode_varint raised {type(e).__name__}: {e}")
        return out
    tally.inc("edges")
    if got != want:
        bad("encode", f"encode_varint={got.hex()} canonical={want.hex()}")
    s = io.BytesIO()
    betterproto.dump_varint(n, s)
    if s.getvalue() != want:
        bad("dump", f"dump_varint wrote {s.getvalue().hex()} canonical={want.hex()}")
    try:
        sz = betterproto.size_varint(n)
        if sz != len(want):
            bad("size", f"size_varint={sz} canonical length={len(want)}")
    except Exception as e:
        bad("size", f"size_varint raised {type(e).__name__}: {e}")
    tally.inc("edges")
    u = n % 2**64
    for prefix, suffix in ((b"", b""), (b"\x80\x01", b"\xff\x01")):
        buf = prefix + want + suffix
        try:
            val, pos = betterproto.decode_varint(buf, len(prefix))
            if val != u or pos != len(prefix) + len(want):
                bad("decode", f"decode_varint({buf.hex()},{len(prefix)}) = ({val},{pos}) expected ({u},{len(prefix)+len(want)})")
        except Exception as e:
            bad("decode", f"decode_varint raised {type(e).__name__}: {e}")
        st = io.BytesIO(buf)
        st.seek(len(prefix))
        try:
            val, raw = betterproto.load_varint(st)
            if val != u or raw != want or st.tell() != len(prefix) + len(want):
                bad("load", f"load_varint -> ({val},{raw.hex()}) tell={st.tell()} expected ({u},{want.hex()})")
        except Exception as e:
            bad("load", f"load_varint raised {type(e).__name__}: {e}")
    tally.inc("edges", 4)
    return out


def int_domain(tier: str) -> List[int]:
    lo, hi = (-(2**16), 2**21) if tier == "quick" else (-(2**20), 2**24)
    struct = set()
    for k in range(0, 65):
        for d in range(-16, 17):
            for sgn in (1, -1):
                v = sgn * 2**k + d
                if -(2**63) - 40 <= v < 2**64:
                    struct.add(v)
    for j in range(0, 10):
        for b in (1, 0x7F, 0x80, 0x81, 0xFF, 0x100):
            v = b * 128**j
            if v < 2**64:
                struct.add(v)
                struct.add(v - 1)
    for d in range(1, 41):
        struct.add(-(2**63) - d)
    struct.update((-(2**64), -(2**70)))
    struct = {v for v in struct if not (lo <= v < hi)}
    return sorted(struct), lo, hi


def _shard_ints(shard: int, nshards: int, extra) -> Tally:
    structured, lo, hi = extra
    t = Tally()
    def safe(n):
        try:
            return check_int(n, t)
        except HarnessError:
            raise
        except Exception as e:
            return [Violation(["varint", "raised", iclass(n)], f"n={n}: {type(e).__name__}: {e}", {"part": "int", "n": str(n)})]

    for n in range(lo + shard, hi, nshards):
        t.inc("ints")
        for v in safe(n):
            t.violate(v)
    for i, n in enumerate(structured):
        if i % nshards == shard:
            t.inc("ints")
            t.mark("classes", iclass(n))
            for v in safe(n):
                t.violate(v)
    if shard == 0:
        t.sample({"int": str(structured[len(structured) // 2])})
    return t


# ---------------------------------------------------------------------------
# decoder inputs


def model_decode(buf: bytes):
    try:
        val, pos = wire.dec_varint(buf, 0)
        return ("ok", val, pos)
    except wire.WireError as e:
        return ("long" if "too long" in str(e) else "eof", None, None)


def check_bytes(buf: bytes, tally: Tally) -> List[Violation]:
    out: List[Violation] = []
    kind, val, pos = model_decode(buf)

    def bad(oracle: str, detail: str):
        out.append(Violation(["varint-decode", oracle, kind, f"len{min(len(buf), 11)}"],
                             f"input={buf.hex()}: {detail}", {"part": "bytes", "hex": buf.hex()}))

    overflow = kind == "ok" and pos == 10 and buf[9] > 1
    if kind == "ok":
        # reference agreement (pure-python decoder masks to 64 bits)
        try:
            rv, rp = _refdec._DecodeVarint(memoryview(buf), 0)
            if (rv, rp) != (val, pos):
                raise HarnessError(f"model/reference disagree decoding {buf.hex()}: {(val,pos)} vs {(rv,rp)}")
        except HarnessError:
            raise
        except Exception:
            pass
    for name in ("decode", "load"):
        try:
            if name == "decode":
                gv, gp = betterproto.decode_varint(buf, 0)
            else:
                st = io.BytesIO(buf)
                gv, raw = betterproto.load_varint(st)
                gp = st.tell()
                if raw != buf[:gp]:
                    bad("load-raw", f"raw={raw.hex()} but consumed {buf[:gp].hex()}")
            if kind != "ok":
                bad(name, f"returned ({gv},{gp}) but input is {'over-long' if kind == 'long' else 'truncated'}")
            elif gp != pos:
                bad(name + "-consumed", f"consumed {gp} bytes, expected {pos}")
            elif overflow:
                tally.inc("overflow_bits_in_10th_byte_recorded")
                if gv % 2**64 != val:
                    bad(name, f"value {gv} (mod 2**64) != {val}")
            elif gv != val:
                bad(name, f"value {gv} != {val}")
        except EOFError:
            if kind != "eof":
                bad(name, f"EOFError but model says {kind}")
        except ValueError as e:
            if kind != "long":
                bad(name, f"ValueError({e}) but model says {kind}")
        except Exception as e:
            bad(name, f"unexpected {type(e).__name__}: {e}")
    tally.inc("edges", 2)
    tally.mark("decode_outcomes", (kind, pos))
    return out


def bytes_domain(tier: str):
    """Deterministic, complete families of decoder inputs (no sampling)."""
    fams = []
    fams.append(("all-len<=2", 256, 2, None))
    fams.append(("alpha3-len<=11", None, 11, (0x01, 0x80, 0xFF)))
    fams.append(("alpha6-len<=6" if tier == "quick" else "alpha6-len<=7", None,
                 6 if tier == "quick" else 7, (0x00, 0x01, 0x7F, 0x80, 0x81, 0xFF)))
    fams.append(("10-byte:9x{80,ff}+every-final-byte", None, 10, "tail10"))
    if tier == "thorough":
        fams.append(("all-len<=3", 256, 3, None))
    return fams


def iter_family(fam):
    name, base, maxlen, alpha = fam
    if alpha == "tail10":
        for tup in itertools.product((0x80, 0xFF), repeat=9):
            for last in range(256):
                yield bytes(tup) + bytes([last])
                if last & 0x80:
                    yield bytes(tup) + bytes([last, 0x00])
        return
    symbols = range(256) if alpha is None else alpha
    for ln in range(0, maxlen + 1):
        for tup in itertools.product(symbols, repeat=ln):
            yield bytes(tup)


def _shard_bytes(shard: int, nshards: int, fams) -> Tally:
    t = Tally()
    i = 0
    for fam in fams:
        for buf in iter_family(fam):
            i += 1
            if i % nshards != shard:
                continue
            t.inc("byte_inputs")
            for v in check_bytes(buf, t):
                t.violate(v)
            if i % 50021 == 0:
                t.sample({"decoder_input": buf.hex()})
    return t


# ---------------------------------------------------------------------------
# per-kind scalar encodings against the reference encoder

_U = {}


def scalar_values(kind: str) -> List[Any]:
    if kind in av.INT_RANGES:
        lo, hi = av.INT_RANGES[kind]
        vals = set(v for v in av.INT_ALPHA if lo <= v <= hi)
        for k in range(0, 65):
            for d in (-2, -1, 0, 1, 2):
                for sgn in (1, -1):
                    v = sgn * 2**k + d
                    if lo <= v <= hi:
                        vals.add(v)
        return sorted(vals)
    if kind == "float":
        # float32 fields given doubles that are not float32-exact: the ENCODING must be the reference's
        return list(av.FLOAT_ALPHA) + list(av.FLOAT_INEXACT)
    return None


def _shard_scalars(shard: int, nshards: int, extra) -> Tally:
    from vf.core.schema import SCALARS
    from vf.core.universe import get_universe

    u = get_universe("quick", pairs=False)
    t = Tally()
    i = 0
    for kind in SCALARS:
        vals = scalar_values(kind) or av.alphabet(u.schema, kind, "full")
        for card in ("single", "optional", "repeated", "oneof"):
            name = f"T1_{card}_{kind}"
            m = u.schema.msg(name)
            cls = getattr(u.bp, name)
            for v in vals:
                i += 1
                if i % nshards != shard:
                    continue
                aval = {"f": [v, v] if card == "repeated" else v}
                ref = av.make_ref(u.schema, u.ref, m, aval)
                want = ref.SerializeToString(deterministic=True)
                t.inc("scalar_cases")
                try:
                    got = bytes(av.make_bp(u.bp, u.schema, m, aval, "ctor"))
                except Exception as e:
                    got = None
                    detail = f"{type(e).__name__}: {e}"
                t.inc("edges")
                if got != want:
                    detail = detail if got is None else f"betterproto {got.hex()} reference {want.hex()}"
                    t.violate(Violation(["scalar-bytes", card, kind, av.vclass(kind, v)],
                                        f"{name} value={v!r}: {detail}",
                                        {"part": "scalar", "kind": kind, "card": card,
                                         "value": av.to_jsonable(v)}))
                    continue
                # decode side: exact value back
                try:
                    back = cls().parse(want)
                    pv = av.project_bp(u.schema, m, back)
                    if not av.aval_eq(pv, av.normalize(u.schema, m, aval)):
                        t.violate(Violation(["scalar-decode", card, kind, av.vclass(kind, v)],
                                            f"{name} value={v!r}: decoded {av.to_jsonable(pv)!r}",
                                            {"part": "scalar", "kind": kind, "card": card,
                                             "value": av.to_jsonable(v)}))
                except Exception as e:
                    t.violate(Violation(["scalar-decode", card, kind, av.vclass(kind, v)],
                                        f"{name} value={v!r}: {type(e).__name__}: {e}",
                                        {"part": "scalar", "kind": kind, "card": card,
                                         "value": av.to_jsonable(v)}))
                t.inc("edges")
    if shard == 0:
        t.sample({"scalar": "T1_single_sint64 value=-9223372036854775808"})
    return t


def run(ctx: Ctx) -> None:
    structured, lo, hi = int_domain(ctx.tier)
    from vf.core.universe import get_universe
    get_universe("quick", pairs=False)  # build before fork
    t1 = merge_tallies(pmap_shards(_shard_ints, 32, (structured, lo, hi)))
    fams = bytes_domain(ctx.tier)
    t2 = merge_tallies(pmap_shards(_shard_bytes, 32, fams))
    t3 = merge_tallies(pmap_shards(_shard_scalars, 16, None))
    for t in (t1, t2, t3):
        for vj in t.violations:
            ctx.add(Violation.from_json(vj))
    states = t1.n.get("ints", 0) + t2.n.get("byte_inputs", 0) + t3.n.get("scalar_cases", 0)
    ctx.coverage.update(
        states=states,
        transitions=t1.n.get("edges", 0) + t2.n.get("edges", 0) + t3.n.get("edges", 0),
        traces_validated_against_impl=states,
        exhaustive=True,
        integers_checked=t1.n.get("ints", 0),
        dense_integer_range=[lo, hi],
        structured_integers=len(structured),
        decoder_inputs=t2.n.get("byte_inputs", 0),
        decoder_input_families=[f[0] for f in fams],
        distinct_decode_outcomes=len(t2.sets.get("decode_outcomes", ())),
        overflow_bits_in_10th_byte_recorded=t2.n.get("overflow_bits_in_10th_byte_recorded", 0),
        scalar_kind_cases=t3.n.get("scalar_cases", 0),
        samples=t1.samples + t2.samples[:3] + t3.samples,
        rule="states = integers (dense range + every 2**k+d, |d|<=16, k<=64 + byte-pattern values "
             "+ rejected domain) U decoder inputs (complete families) U (kind, cardinality, value) "
             "single-field messages; each compared with the wire model and the reference",
    )
    ctx.assumptions += [
        "the clause 'randomly elsewhere' of the property is replaced by the structured sweep; "
        "the untouched remainder of 2**64 is argued structurally (no further branch points), not explored",
        "bits beyond 2**64 in the 10th varint byte are compared modulo 2**64 and recorded, not alarmed "
        "(the statement does not cover them)",
    ]


def replay(case: dict) -> List[Violation]:
    t = Tally()
    if case["part"] == "int":
        return check_int(int(case["n"]), t)
    if case["part"] == "bytes":
        return check_bytes(bytes.fromhex(case["hex"]), t)
    # scalar: re-run the single case
    from vf.core.universe import get_universe
    u = get_universe("quick", pairs=False)
    kind, card = case["kind"], case["card"]
    v = av.from_jsonable(case["value"])
    name = f"T1_{card}_{kind}"
    m = u.schema.msg(name)
    aval = {"f": [v, v] if card == "repeated" else v}
    want = av.make_ref(u.schema, u.ref, m, aval).SerializeToString(deterministic=True)
    out = []
    try:
        got = bytes(av.make_bp(u.bp, u.schema, m, aval, "ctor"))
    except Exception:
        got = None
    if got != want:
        out.append(Violation(["scalar-bytes", card, kind, av.vclass(kind, v)], "bytes differ", case))
        return out
    try:
        pv = av.project_bp(u.schema, m, getattr(u.bp, name)().parse(want))
        ok = av.aval_eq(pv, av.normalize(u.schema, m, aval))
    except Exception:
        ok = False
    if not ok:
        out.append(Violation(["scalar-decode", card, kind, av.vclass(kind, v)], "decode differs", case))
    return out
