"""C17 malformed or truncated input is rejected or isolated, never mis-decoded.

Fault enumeration over valid encodings of every (kind x cardinality) type:
every truncation point, every tag/length byte corruption, every wire-type
substitution (incl. invalid 6/7, groups 3/4), length perturbations, field number 0,
plus all short byte strings against representative classes.
Oracles come from the wire model (schema-aware well-formedness) and the reference.
"""
from __future__ import annotations

import itertools
from typing import Any, Dict, List, Optional, Tuple

from vf.core import absval as av
from vf.core import reencode, wire
from vf.core.runner import Ctx, HarnessError, Tally, Violation, merge_tallies, pmap_shards
from vf.core.schema import PACKABLE, Field, Msg, Schema, base_kind, kind_arg
from vf.core.smallscope import hkey, limit_memory, run_guarded
from vf.core.universe import Universe, get_universe, unit_values, all_units

LEVEL = "fault_enumeration"
_U: Dict[str, Any] = {}


def U() -> Universe:
    if "u" not in _U:
        _U["u"] = get_universe("quick", pairs=False)
    return _U["u"]


# ---------------------------------------------------------------------------
# schema-aware well-formedness (wire model)


def expected_wt(f: Field) -> int:
    return reencode.elem_wt(f.kind) if f.card != "map" else wire.LEN


def inner_msg(schema: Schema, f: Field) -> Optional[Msg]:
    if f.card == "map":
        return Msg("entry", (Field("key", 1, f.key), Field("value", 2, f.kind)))
    b = f.base
    if b == "msg":
        return schema.msg(kind_arg(f.kind))
    if b in ("timestamp", "duration"):
        return Msg("ts", (Field("seconds", 1, "int64"), Field("nanos", 2, "int32")))
    if b == "wrap":
        return Msg("w", (Field("value", 1, kind_arg(f.kind)),))
    return None


def malformed_reason(schema: Schema, m: Optional[Msg], data: bytes, depth: int = 0) -> Optional[str]:
    """None if ``data`` is a structurally valid message body for ``m``; else the reason."""
    try:
        recs = wire.tokenize(data)
        wire.check_groups(recs)
    except wire.WireError as e:
        s = str(e)
        if "truncated" in s:
            return "truncated"
        if "wire type" in s:
            return "invalid-wire-type"
        if "field number 0" in s:
            return "field-zero"
        if "too long" in s:
            return "varint-too-long"
        if "too large" in s:
            return None  # field numbers above 2**29-1: not covered by the property
        if "group" in s:
            return "unbalanced-group"
        return "other:" + s
    if m is None or depth > 6:
        return None
    fields = {f.number: f for f in m.fields}
    in_group = 0
    for r in recs:
        if r.wt == wire.SGROUP:
            in_group += 1
            continue
        if r.wt == wire.EGROUP:
            in_group -= 1
            continue
        if in_group:
            continue
        f = fields.get(r.number)
        if f is None or r.wt != wire.LEN:
            continue
        if f.card == "repeated" and f.base in PACKABLE:
            wt = reencode.elem_wt(f.kind)
            if wt == wire.FIXED32 and len(r.payload) % 4:
                return "truncated-packed"
            if wt == wire.FIXED64 and len(r.payload) % 8:
                return "truncated-packed"
            if wt == wire.VARINT:
                pos = 0
                try:
                    while pos < len(r.payload):
                        _, pos = wire.dec_varint(r.payload, pos)
                except wire.WireError:
                    return "truncated-packed"
            continue
        if expected_wt(f) != wire.LEN:
            continue
        im = inner_msg(schema, f)
        if im is not None:
            why = malformed_reason(schema, im, r.payload, depth + 1)
            if why:
                return "nested-" + why
    return None


# ---------------------------------------------------------------------------
# the generic oracle for one input


def judge(tname: str, data: bytes, tally: Tally, expect_known_from_ref: bool = False,
          must_keep: Optional[bytes] = None) -> List[Tuple[str, str]]:
    """Decode ``data`` as type ``tname``; return (oracle, detail) failures."""
    u = U()
    m = u.schema.msg(tname)
    cls = getattr(u.bp, tname)
    fails: List[Tuple[str, str]] = []
    status, res = run_guarded(lambda: cls().parse(data))
    tally.inc("decodes")
    try:
        refmsg = u.ref.cls(tname).FromString(data)
        ref_ok = True
    except Exception:
        refmsg, ref_ok = None, False
    tally.inc(f"agree_bp_{'accept' if status == 'ok' else 'reject'}__ref_{'accept' if ref_ok else 'reject'}")
    if status in ("hang", "memory"):
        return [(status, f"decoder did not terminate normally ({status})")]
    why = malformed_reason(u.schema, m, data)
    if why is None and not ref_ok:
        tally.inc("model_ok_ref_rejects")  # e.g. invalid UTF-8: recorded only
    if why is not None and ref_ok:
        # The reference is the arbiter of "malformed": e.g. upb does not validate
        # field numbers / wire types inside an unknown group it skips.  Recorded,
        # never alarmed; a plain top-level truncation the reference accepts would
        # mean the wire model is wrong.
        if why == "truncated":
            raise HarnessError(f"wire model says {why} but reference accepts {data.hex()} as {tname}")
        tally.inc("model_malformed_but_reference_accepts")
        tally.mark("model_ref_disagree_reasons", why)
        why = None
    if status == "raise":
        tally.mark("raise_types", type(res).__name__)
        if must_keep is not None and ref_ok and why is None:
            # a well-formed record with a wire type that does not fit the declared type must be
            # KEPT as an unknown field (the reference accepts this input), not rejected
            fails.append(("mismatch-rejected",
                          f"{data.hex()[:60]}: well-formed record {must_keep.hex()} with an unfitting wire type made decoding raise {type(res).__name__}: {res}"[:300]))
        return fails
    msg = res
    if why is not None:
        fails.append(("accepted-" + why, f"{data.hex()[:80]} is malformed ({why}) but decoded to {msg!r}"[:300]))
    st2, errs = run_guarded(lambda: av.type_errors(u.schema, m, msg))
    if st2 != "ok":
        fails.append(("unobservable", f"reading fields failed: {errs!r}"[:200]))
    elif errs:
        fails.append(("wrong-type", f"{data.hex()[:60]} -> {errs[:3]}"))
    st3, enc = run_guarded(lambda: bytes(msg))
    if st3 != "ok":
        fails.append(("cannot-reencode", f"{data.hex()[:60]} decoded but bytes() raised {enc!r}"[:300]))
    if expect_known_from_ref and ref_ok and why is None and st2 == "ok" and not errs:
        try:
            got = av.project_bp(u.schema, m, msg)
            want = av.project_ref(u.schema, m, refmsg)
            if not av.aval_eq(got, want):
                fails.append(("known-field-altered",
                              f"{data.hex()[:60]}: known fields {av.to_jsonable(got)!r}, reference {av.to_jsonable(want)!r}"[:400]))
        except Exception as e:
            fails.append(("unobservable", f"{type(e).__name__}: {e}"[:200]))
    if must_keep is not None and st3 == "ok" and why is None and must_keep not in enc:
        fails.append(("mismatch-not-kept-unknown", f"record {must_keep.hex()} not re-emitted in {enc.hex()[:80]}"))
    return fails


# ---------------------------------------------------------------------------
# fault generators

CORRUPT_MASKS = [1 << i for i in range(8)]
CORRUPT_SET = [0x00, 0x7F, 0x80, 0xFF]


def tag_and_length_offsets(data: bytes) -> List[Tuple[int, str]]:
    out = []
    pos = 0
    for r in wire.tokenize(data):
        tl = len(r.raw) - _payload_len(r)
        t_end = pos
        # tag bytes
        key, p2 = wire.dec_varint(data, pos)
        for o in range(pos, p2):
            out.append((o, "tag"))
        if r.wt == wire.LEN:
            _, p3 = wire.dec_varint(data, p2)
            for o in range(p2, p3):
                out.append((o, "length"))
        pos += len(r.raw)
    return out


def _payload_len(r: wire.Rec) -> int:
    if r.wt == wire.LEN:
        return len(r.payload)
    if r.wt == wire.FIXED32:
        return 4
    if r.wt == wire.FIXED64:
        return 8
    if r.wt == wire.VARINT:
        return wire.varint_len(r.payload)
    return 0


def substitute_records(number: int) -> List[Tuple[str, bytes]]:
    out = [
        ("wt0", wire.make_rec(number, wire.VARINT, 5).raw),
        ("wt1", wire.make_rec(number, wire.FIXED64, b"\x05" + b"\0" * 7).raw),
        ("wt2", wire.make_rec(number, wire.LEN, b"abc").raw),
        ("wt5", wire.make_rec(number, wire.FIXED32, b"\x05\0\0\0").raw),
        ("wt6", wire.enc_varint(number << 3 | 6)),
        ("wt7", wire.enc_varint(number << 3 | 7)),
    ]
    return out


def faults_for(tname: str, aval) -> List[Tuple[str, bytes, Dict[str, Any]]]:
    """(fault kind, bytes, options) for one valid encoding."""
    u = U()
    m = u.schema.msg(tname)
    data = av.make_ref(u.schema, u.ref, m, aval).SerializeToString()
    out: List[Tuple[str, bytes, Dict[str, Any]]] = []
    recs = wire.tokenize(data)
    bounds = set()
    pos = 0
    for r in recs:
        bounds.add(pos)
        pos += len(r.raw)
    bounds.add(pos)
    for c in range(len(data)):
        out.append(("truncate" if c not in bounds else "truncate-at-boundary", data[:c], {"ref_known": True}))
    for off, what in tag_and_length_offsets(data):
        b = data[off]
        for nb in sorted({b ^ mk for mk in CORRUPT_MASKS} | set(CORRUPT_SET)):
            if nb != b:
                out.append((f"corrupt-{what}", data[:off] + bytes([nb]) + data[off + 1:], {}))
    # wire-type substitution: a well-formed record of every other wire type for each field
    f0 = m.fields[0]
    declared = {f.number: f for f in m.fields}
    for number, f in declared.items():
        for label, raw in substitute_records(number):
            legit = {"wt0": wire.VARINT, "wt1": wire.FIXED64, "wt2": wire.LEN, "wt5": wire.FIXED32}.get(label)
            ok_wts = {expected_wt(f)}
            if f.card == "repeated" and f.base in PACKABLE:
                ok_wts.add(wire.LEN)
            if legit in ok_wts:
                continue
            keep = raw if label in ("wt0", "wt1", "wt2", "wt5") else None
            for where, d in (("before", raw + data), ("after", data + raw)):
                out.append((f"wiretype-{label}", d, {"ref_known": True, "must_keep": keep}))
    # proto2 groups: around and inside known fields; contents look like known fields
    for number, f in declared.items():
        inner = data if data else b""
        for gnum in (number, 7):
            grp = wire.tag(gnum, wire.SGROUP) + inner + wire.tag(gnum, wire.EGROUP)
            out.append(("group", grp, {"ref_known": True}))
            out.append(("group", grp + data, {"ref_known": True}))
            out.append(("group", data + grp, {"ref_known": True}))
            out.append(("group-unterminated", wire.tag(gnum, wire.SGROUP) + inner, {}))
            out.append(("group-stray-end", data + wire.tag(gnum, wire.EGROUP), {}))
    # declared length perturbations
    pos = 0
    for r in recs:
        if r.wt == wire.LEN:
            tl = len(wire.tag(r.number, r.wt))
            ll = wire.varint_len(len(r.payload))
            rest = data[pos + tl + ll:]
            for newlen in sorted({len(r.payload) - 1, len(r.payload) + 1, 0, len(data) + 1, 2**31, 2**31 - 1}):
                if newlen >= 0 and newlen != len(r.payload):
                    out.append(("length-perturbed", data[:pos + tl] + wire.enc_varint(newlen) + rest, {}))
        pos += len(r.raw)
    # packed payloads whose length is consistent with the input but is not a whole number of
    # elements (fixed width), or whose last varint element is cut (continuation bit set)
    for number, f in declared.items():
        if f.card == "repeated" and f.base in PACKABLE:
            wt_e = reencode.elem_wt(f.kind)
            good = b""
            for r in recs:
                if r.number == number and r.wt == wire.LEN:
                    good = r.payload
            width = 4 if wt_e == wire.FIXED32 else 8 if wt_e == wire.FIXED64 else 0
            ragged = []
            if width:
                for extra in range(1, width):
                    ragged.append(good + b"\x01" * extra)
                    ragged.append(b"\x01" * extra)
            else:
                ragged.append(good + b"\x80")
                ragged.append(good + b"\xff\xff")
                ragged.append(b"\x81")
            for pl in ragged:
                rec = wire.make_rec(number, wire.LEN, pl).raw
                out.append(("packed-ragged", rec, {}))
                out.append(("packed-ragged", data + rec, {}))
                out.append(("packed-ragged", rec + data, {}))
    # field number zero
    for wt, payload in ((0, b"\x01"), (2, b"\x01a"), (5, b"\0\0\0\0"), (1, b"\0" * 8)):
        z = bytes([wt]) + payload
        out.append(("field-zero", z + data, {}))
        out.append(("field-zero", data + z, {}))
    return out


def base_cases() -> List[Tuple[str, Any]]:
    u = U()
    out = []
    for tc in u.types:
        if tc.tag != "T1":
            continue
        if "_map_wrap_" in tc.msg.name:
            continue  # map<K, wrapper> is a separate known finding (KF-map-wrapper-values)
        # (the universe's size-boundary values - hundreds of elements - are left to the
        # large-payload family below: every fault position on them would be millions of inputs)
        vals = [v for v in tc.values if av.normalize(u.schema, tc.msg, v)
                and not any(isinstance(x, (list, dict)) and len(x) > 16 for x in v.values())]
        picked = vals[:1] + vals[len(vals) // 2: len(vals) // 2 + 1] + vals[-1:]
        seen = []
        for v in picked:
            if v not in seen:
                seen.append(v)
                out.append((tc.msg.name, v))
    return out


REPRESENTATIVE = ["T1_single_int32", "T1_single_string", "T1_single_msg_Sub", "T1_repeated_double",
                  "T1_map_int32", "T1_oneof_enum_Color"]


def sig_for(tname: str, oracle: str, fault: str) -> List[str]:
    u = U()
    f = u.schema.msg(tname).fields[0]
    return ["malformed", oracle, fault, f.card, f.base]


def _shard_faults(shard: int, nshards: int, extra) -> Tally:
    limit_memory(2.0)
    t = Tally()
    i = 0
    for tname, aval in _U["bases"]:
        i += 1
        if i % nshards != shard:
            continue
        seen = set()
        seen_sig = set()
        for fault, data, opts in faults_for(tname, aval):
            if data in seen:
                continue
            seen.add(data)
            t.inc("evaluations")
            if fault != "truncate-at-boundary":
                t.mark("nontrivial", hkey(tname, data))
            t.mark("fault_kinds", fault)
            for oracle, detail in judge(tname, data, t, opts.get("ref_known", False), opts.get("must_keep")):
                sig = sig_for(tname, oracle, fault)
                if tuple(sig) in seen_sig:
                    continue
                seen_sig.add(tuple(sig))
                t.violate(Violation(sig, f"{tname} fault={fault}: {detail}"[:500],
                                    {"type": tname, "hex": data.hex(), "fault": fault,
                                     "ref_known": bool(opts.get("ref_known")),
                                     "must_keep": opts["must_keep"].hex() if opts.get("must_keep") else None}),
                          cap_per_sig=1)
        if i % 41 == 0:
            t.sample({"type": tname, "valid_value": av.to_jsonable(aval), "faults": "all kinds"})
    return t


def _shard_short(shard: int, nshards: int, maxlen: int) -> Tally:
    limit_memory(2.0)
    t = Tally()
    i = 0
    seen_sig = set()
    for ln in range(0, maxlen + 1):
        for tup in itertools.product(range(256), repeat=ln):
            i += 1
            if i % nshards != shard:
                continue
            data = bytes(tup)
            for tname in REPRESENTATIVE:
                t.inc("evaluations")
                t.inc("nontrivial_short")  # distinct by construction (every string once per class)
                for oracle, detail in judge(tname, data, t):
                    sig = sig_for(tname, oracle, f"short-bytes")
                    if tuple(sig) in seen_sig:
                        continue
                    seen_sig.add(tuple(sig))
                    t.violate(Violation(sig, f"{tname} input={data.hex()}: {detail}"[:500],
                                        {"type": tname, "hex": data.hex(), "fault": "short-bytes",
                                         "ref_known": False, "must_keep": None}), cap_per_sig=1)
    if shard == 0:
        t.sample({"type": REPRESENTATIVE[0], "input": "every byte string of length <= %d" % maxlen})
    return t


# ---------------------------------------------------------------------------
# large payloads: truncation inside length-delimited values whose size is around 2^7, 2^14
# (length-prefix widths) and 2^16, 2^17 (block sizes a chunked reader is likely to use)

LARGE_TYPES = ["T1_single_bytes", "T1_single_string", "T1_single_msg_Sub", "T1_repeated_bytes", "T1_single_int32"]
LARGE_SIZES = sorted({2**k + d for k in (7, 14, 16, 17) for d in (-1, 0, 1, 100)})


def large_encoding(tname: str, size: int) -> bytes:
    u = U()
    m = u.schema.msg(tname)
    f = m.fields[0]
    if tname == "T1_single_int32":
        # the long value sits in a field this class does not know
        return wire.make_rec(f.number, wire.VARINT, 1).raw + wire.make_rec(77, wire.LEN, b"u" * size).raw
    if f.base == "msg":
        return wire.make_rec(f.number, wire.LEN, wire.make_rec(2, wire.LEN, b"s" * size).raw).raw
    return wire.make_rec(f.number, wire.LEN, b"x" * size).raw


def large_cuts(n: int) -> List[int]:
    cuts = set(range(0, 16)) | set(range(max(0, n - 130), n))
    for k in range(7, 18):
        for d in range(-3, 4):
            cuts.add(2**k + d)
    return sorted(c for c in cuts if 0 <= c < n)


def _shard_large(shard: int, nshards: int, extra) -> Tally:
    limit_memory(2.0)
    t = Tally()
    i = 0
    seen_sig = set()
    for tname in LARGE_TYPES:
        for size in LARGE_SIZES:
            data = large_encoding(tname, size)
            for cut in large_cuts(len(data)) + [len(data)]:
                i += 1
                if i % nshards != shard:
                    continue
                t.inc("evaluations")
                t.inc("nontrivial_large")
                t.mark("fault_kinds", "truncate-large")
                for oracle, detail in judge(tname, data[:cut], t, cut == len(data)):
                    sig = sig_for(tname, oracle, "truncate-large")
                    if tuple(sig) in seen_sig:
                        continue
                    seen_sig.add(tuple(sig))
                    t.violate(Violation(sig, f"{tname} payload of {size} bytes cut at {cut}/{len(data)}: {detail}"[:400],
                                        {"part": "large", "type": tname, "size": size, "cut": cut}), cap_per_sig=1)
    return t


def run(ctx: Ctx) -> None:
    # the same address-space limit in the parent (replays) and in the workers: a decoded
    # garbage length such as bytes(3_000_000_000) must fail the same way in both
    limit_memory(2.0)
    U()
    _U["bases"] = base_cases()
    t1 = merge_tallies(pmap_shards(_shard_faults, 64, None))
    t2 = merge_tallies(pmap_shards(_shard_short, 64, 2 if ctx.quick else 3))
    t3 = merge_tallies(pmap_shards(_shard_large, 64, None))
    t = merge_tallies([t1, t2, t3])
    for vj in t.violations:
        ctx.add(Violation.from_json(vj))
    agree = {k: v for k, v in t.n.items() if k.startswith("agree_")}
    ctx.coverage.update(
        evaluations=t.n.get("evaluations", 0),
        distinct_nontrivial=len(t.sets.get("nontrivial", ())) + t.n.get("nontrivial_short", 0) + t.n.get("nontrivial_large", 0),
        large_payload_cuts=t.n.get("nontrivial_large", 0),
        rule="faults enumerated completely per valid encoding: every truncation point, every tag/length "
             "byte x {8 single-bit flips, 00, 7f, 80, ff}, a well-formed record of every other wire type "
             "(0,1,2,5,6,7) before/after, groups around known-looking content, declared-length "
             "perturbations, field number 0; plus ALL byte strings up to length %d against 6 classes. "
             "non-trivial = distinct (type, faulted input) other than cuts at a record boundary"
             % (2 if ctx.quick else 3),
        base_encodings=len(_U["bases"]),
        fault_kinds=sorted(t.sets.get("fault_kinds", ())),
        reference_agreement_matrix=agree,
        model_ok_but_reference_rejects=t.n.get("model_ok_ref_rejects", 0),
        model_malformed_but_reference_accepts=t.n.get("model_malformed_but_reference_accepts", 0),
        model_reference_disagreement_reasons=sorted(t.sets.get("model_ref_disagree_reasons", ())),
        exception_types_seen=sorted(t.sets.get("raise_types", ())),
        exhaustive=True,
        samples=t.samples,
    )
    ctx.assumptions += [
        "base encodings: three values of every single-unit type (kind x cardinality), reference-serialised",
        "agreement with the reference's accept/reject is recorded, not alarmed, except where the property "
        "names the outcome (truncation inside a field, wire types 6/7, field 0, mismatched wire type, groups)",
    ]


def replay(case: dict) -> List[Violation]:
    limit_memory(2.0)
    U()
    t = Tally()
    if case.get("part") == "large":
        data = large_encoding(case["type"], case["size"])
        return [Violation(sig_for(case["type"], o, "truncate-large"), d, case)
                for o, d in judge(case["type"], data[:case["cut"]], t, case["cut"] == len(data))]
    data = bytes.fromhex(case["hex"])
    keep = bytes.fromhex(case["must_keep"]) if case.get("must_keep") else None
    out = []
    for oracle, detail in judge(case["type"], data, t, case.get("ref_known", False), keep):
        out.append(Violation(sig_for(case["type"], oracle, case["fault"]), detail, case))
    return out
