"""C07 oneof exclusivity after any history of operations (explicit-state BFS to fixpoint)."""
from __future__ import annotations

import copy
import json
import pickle
from typing import Any, Dict, List, Tuple

import betterproto

from vf.core import absval as av
from vf.core import wire
from vf.core.explore import OpNotEnabled, Space, bfs
from vf.core.runner import Ctx, Violation
from vf.core.schema import Field, Msg, Schema, build_bp
from vf.core.universe import COLOR, LIB_MSGS

LEVEL = "model_checking"

# The members of one group are deliberately NOT declared next to each other (a hand-written class
# in field-number order with interleaved oneofs), and not in field-number order either.
QUICK_FIELDS = (
    Field("i", 1, "int32", "oneof", group="g1"),
    Field("sub", 4, "msg:Sub", "oneof", group="g2"),
    # members whose python value is not a Message although the field is one on the wire
    Field("t", 9, "timestamp", "oneof", group="g3"),
    Field("s", 2, "string", "oneof", group="g1"),
    Field("p", 6, "int32"),
    Field("b", 5, "bool", "oneof", group="g2"),
    Field("u", 11, "duration", "oneof", group="g3"),
    Field("e", 3, "enum:Color", "oneof", group="g1"),
    Field("w", 12, "wrap:int32", "oneof", group="g3"),
)
# a second, small message: oneof members declared the way the plugin declares them for pydantic
# dataclasses (group=..., optional=True), one group with a SINGLE member
OPT_FIELDS = (
    Field("z", 13, "int32", "oneof", group="g4", opt_member=True),
    Field("qa", 14, "int32", "oneof", group="g5", opt_member=True),
    Field("p", 6, "int32"),
    Field("qb", 15, "string", "oneof", group="g5", opt_member=True),
)
THOROUGH_EXTRA = (
    Field("y", 7, "bytes", "oneof", group="g3"), Field("d", 8, "double", "oneof", group="g3"),
    Field("o", 10, "int32", "optional"),
)
VALUES = {
    "i": [0, 5], "s": ["", "x"], "e": [0, 1], "sub": [{}, {"a": 1}], "b": [False, True],
    "y": [b"", b"\x01"], "d": [0.0, 2.5], "t": [av.EPOCH, av.TS_ALPHA[3]],
    "u": [av.DUR_ALPHA[0], av.DUR_ALPHA[3]], "w": [0, 7],
    "z": [0, 9], "qa": [0, 4], "qb": ["", "q"],
}
JSON_NAME = {"i": "i", "s": "s", "e": "e", "sub": "sub", "b": "b", "y": "y", "d": "d", "t": "t", "u": "u", "w": "w",
             "z": "z", "qa": "qa", "qb": "qb"}


class OneofSpace(Space):
    def __init__(self, tier: str):
        fields = OPT_FIELDS if tier == "optstyle" else QUICK_FIELDS + (THOROUGH_EXTRA if tier == "thorough" else ())
        self.tier = tier
        self.schema = Schema("vfc07", (COLOR,), LIB_MSGS + (Msg("M", fields),))
        self.m = self.schema.msg("M")
        self.ns = build_bp(self.schema, "vf_c07_" + tier)
        self.members = [f for f in self.m.fields if f.card == "oneof"]
        self.groups = self.m.groups

    # -- helpers ----------------------------------------------------------
    def pyval(self, f: Field, v):
        if f.base == "msg":
            return self.ns.Sub(**v)
        if f.base == "enum":
            return self.ns.Color.try_value(v)
        return v

    def record(self, f: Field, v) -> bytes:
        b = f.base
        if b in ("int32", "enum", "bool"):
            return wire.make_rec(f.number, wire.VARINT, int(v)).raw
        if b == "string":
            return wire.make_rec(f.number, wire.LEN, v.encode()).raw
        if b == "bytes":
            return wire.make_rec(f.number, wire.LEN, v).raw
        if b == "double":
            import struct
            return wire.make_rec(f.number, wire.FIXED64, struct.pack("<d", v)).raw
        if b == "msg":
            body = wire.make_rec(1, wire.VARINT, v["a"]).raw if v.get("a") else b""
            return wire.make_rec(f.number, wire.LEN, body).raw
        if b == "wrap":
            body = wire.make_rec(1, wire.VARINT, v).raw if v else b""
            return wire.make_rec(f.number, wire.LEN, body).raw
        if b == "duration":
            s, n = av.dur_parts(v)
            body = (wire.make_rec(1, wire.VARINT, s % (1 << 64)).raw if s else b"") + (wire.make_rec(2, wire.VARINT, n % (1 << 64)).raw if n else b"")
            return wire.make_rec(f.number, wire.LEN, body).raw
        if b == "timestamp":
            s, n = av.ts_parts(v)
            body = (wire.make_rec(1, wire.VARINT, s).raw if s else b"") + (wire.make_rec(2, wire.VARINT, n).raw if n else b"")
            return wire.make_rec(f.number, wire.LEN, body).raw
        raise ValueError(b)

    def jsonval(self, f: Field, v):
        if f.base == "enum":
            return {0: "ZERO", 1: "ONE"}[v]
        if f.base == "bytes":
            import base64
            return base64.b64encode(v).decode()
        if f.base == "timestamp":
            return v.strftime("%Y-%m-%dT%H:%M:%S") + (".%06dZ" % v.microsecond if v.microsecond else "Z")
        return v

    # -- Space API ----------------------------------------------------------
    def ops(self) -> List[Any]:
        ops: List[Any] = []
        for f in self.members:
            for vi in range(2):
                ops.append(["set", f.name, vi])
        ops.append(["setplain", 1])
        pm = [(f.name, vi) for f in self.members for vi in range(2)]
        if self.tier == "thorough":
            pm = [x for x in pm if x[0] in ("i", "s", "sub", "b", "d", "t", "u")]
        else:
            pm = [x for x in pm if x[0] != "w" or x[1] == 0]
        ops.append(["parse", []])
        for a in pm:
            ops.append(["parse", [list(a)]])
        for a in pm:
            for b in pm:
                if a[0] == b[0] == "sub":
                    continue
                if self.tier != "thorough" and self.m.field(a[0]).group != self.m.field(b[0]).group \
                        and not (a[1] == 1 and b[1] == 1):
                    continue  # quick: members of DIFFERENT groups interleave with non-default values only
                ops.append(["parse", [list(a), list(b)]])
        # one member before AND after another member of its group (A, B, A): the last occurrence wins
        for a in pm:
            for b in pm:
                if a[0] != b[0] and self.m.field(a[0]).group == self.m.field(b[0]).group and a[1] == 1 and b[1] == 1 \
                        and "sub" not in (a[0], b[0]):
                    ops.append(["parse", [list(a), list(b), list(a)]])
        dicts = [[["i", 1]], [["s", 0]], [["e", 1]], [["sub", 1]], [["b", 0]],
                 [["i", 1], ["b", 1]], [["i", 1], ["s", 1]], [["s", 1], ["i", 0]], []]
        if self.tier == "optstyle":
            dicts = [[["z", 1]], [["z", 0]], [["qa", 1]], [["qb", 0]], [["qa", 1], ["qb", 1]], [["z", 1], ["qa", 0]], []]
        for d in dicts:
            ops.append(["from_dict_inst", d])
            ops.append(["from_dict_cls", d])
        ops += [["copy"], ["deepcopy"], ["pickle"]]
        for f in self.members:
            ops.append(["read", f.name])
        for kw in self.ctor_kwargs():
            ops.append(["ctor", kw])
        return ops

    def ctor_kwargs(self):
        out: List[Any] = [[]]
        for f in self.members:
            for vi in range(2):
                out.append([[f.name, vi]])
        if self.tier == "optstyle":
            out.append([["qa", 1], ["qb", 1]])
            out.append([["z", 0], ["p", 1]])
            return out
        out.append([["i", 1], ["s", 1]])       # illegal: two members of one group
        # ... and every other unordered pair of members of one group (non-default values): which raw
        # value is left behind depends on the declaration order of the two and of the member set next
        for gi, fa in enumerate(self.members):
            for fb in self.members[gi + 1:]:
                if fa.group == fb.group and {fa.name, fb.name} != {"i", "s"} and "sub" not in (fa.name, fb.name):
                    out.append([[fa.name, 1], [fb.name, 1]])
        out.append([["s", 0], ["i", 0]])
        out.append([["i", 1], ["b", 1], ["p", 1]])
        return out

    def initial_histories(self):
        return [[["ctor", kw]] for kw in self.ctor_kwargs()]

    def new_model(self):
        return {"sel": {g: None for g in self.groups}, "p": 0}

    def _model_set(self, model, name, vi):
        f = self.m.field(name)
        model["sel"][f.group] = [[name], VALUES[name][vi] if f.base not in ("msg",) else None]

    def replay(self, history):
        obj, model = None, None
        for op in history:
            obj, model = self.apply(obj, model, op)
        return obj, model

    def apply(self, obj, model, op):
        kind = op[0]
        M = self.ns.M
        if kind == "ctor":
            kwargs = {}
            model = self.new_model()
            by_group: Dict[str, List[Tuple[str, int]]] = {}
            for name, vi in op[1]:
                if name == "p":
                    kwargs["p"] = 1
                    model["p"] = 1
                    continue
                f = self.m.field(name)
                kwargs[name] = self.pyval(f, VALUES[name][vi])
                by_group.setdefault(f.group, []).append((name, vi))
            for g, lst in by_group.items():
                if len(lst) == 1:
                    self._model_set(model, lst[0][0], lst[0][1])
                else:
                    model["sel"][g] = [[n for n, _ in lst], "ambiguous"]
            return M(**kwargs), model
        if obj is None:
            raise OpNotEnabled()
        model = json.loads(json.dumps(model, default=_jd), object_hook=_jh)
        if kind == "set":
            f = self.m.field(op[1])
            setattr(obj, f.name, self.pyval(f, VALUES[f.name][op[2]]))
            self._model_set(model, f.name, op[2])
            return obj, model
        if kind == "setplain":
            obj.p = op[1]
            model["p"] = op[1]
            return obj, model
        if kind == "parse":
            data = b"".join(self.record(self.m.field(n), VALUES[n][vi]) for n, vi in op[1])
            r = obj.parse(data)
            if r is not obj:
                raise AssertionError("parse did not return self")
            for n, vi in op[1]:
                self._model_set(model, n, vi)
            return obj, model
        if kind in ("from_dict_inst", "from_dict_cls"):
            d = {}
            for n, vi in op[1]:
                f = self.m.field(n)
                d[JSON_NAME[n]] = self.jsonval(f, VALUES[n][vi])
            if kind == "from_dict_inst":
                r = obj.from_dict(d)
                if r is not obj:
                    raise AssertionError("from_dict did not return self")
                for n, vi in op[1]:
                    self._model_set(model, n, vi)
                return obj, model
            new = M.from_dict(d)
            model = self.new_model()
            by_group: Dict[str, List[Tuple[str, int]]] = {}
            for n, vi in op[1]:
                by_group.setdefault(self.m.field(n).group, []).append((n, vi))
            for g, lst in by_group.items():
                if len(lst) == 1:
                    self._model_set(model, lst[0][0], lst[0][1])
                else:
                    model["sel"][g] = [[n for n, _ in lst], "ambiguous"]
            return new, model
        if kind == "copy":
            return copy.copy(obj), model
        if kind == "deepcopy":
            return copy.deepcopy(obj), model
        if kind == "pickle":
            return pickle.loads(pickle.dumps(obj)), model
        if kind == "read":
            try:
                getattr(obj, op[1])
            except AttributeError:
                pass
            return obj, model
        raise ValueError(op)

    def op_sig(self, op) -> List[str]:
        kind = op[0]
        if kind in ("set", "read"):
            return ["oneof", kind, self.m.field(op[1]).base]
        if kind in ("parse", "from_dict_inst", "from_dict_cls", "ctor"):
            return ["oneof", kind, f"n{len(op[1])}"]
        return ["oneof", kind, ""]

    def key(self, obj, model) -> str:
        return json.dumps([av.canon_internal(obj), model], sort_keys=True, default=_jd)

    def check(self, obj, model, history) -> List[Tuple[List[str], str]]:
        out: List[Tuple[List[str], str]] = []
        last = history[-1]
        base = self.op_sig(last)

        def bad(oracle: str, member: str, detail: str):
            out.append((base + [oracle, self.m.field(member).base if member else ""], detail))

        try:
            data = bytes(obj)
            recs = wire.tokenize(data)
            td = obj.to_dict()
        except Exception as e:
            return [(base + ["observe-raised", type(e).__name__], f"{type(e).__name__}: {e}")]
        for g, members in self.groups.items():
            sel = model["sel"][g]
            name, value = betterproto.which_one_of(obj, g)
            if sel is None:
                want_names: List[str] = []
            else:
                want_names = sel[0]
            if sel is None:
                if name != "":
                    bad("which_one_of", name, f"group {g}: which_one_of says {name!r}, model says none")
            elif name not in want_names:
                bad("which_one_of", want_names[0], f"group {g}: which_one_of says {name!r}, last set was {want_names}")
            else:
                if len(want_names) > 1:
                    # ambiguous multi-member construction: adopt the implementation's choice
                    f = self.m.field(name)
                    model["sel"][g] = [[name], None if f.base == "msg" else "adopted"]
                    sel = model["sel"][g]
                want_val = sel[1]
                if want_val is not None and want_val != "adopted" and want_val != "ambiguous":
                    f = self.m.field(name)
                    got = int(value) if f.base == "enum" else value
                    if got != want_val:
                        bad("value", name, f"group {g}: {name} holds {value!r}, last assigned {want_val!r}")
            selected = name
            for f in members:
                if f.name == selected:
                    continue
                try:
                    v = getattr(obj, f.name)
                    bad("sibling-readable", f.name, f"group {g}: unselected member {f.name} reads {v!r} (selected {selected!r})")
                except AttributeError:
                    pass
            nums = {f.number: f.name for f in members}
            on_wire = [nums[r.number] for r in recs if r.number in nums]
            want_wire = [selected] if selected else []
            if on_wire != want_wire:
                bad("encoding", selected or members[0].name, f"group {g}: wire has members {on_wire}, selected {selected!r}; bytes={data.hex()}")
            in_json = [f.name for f in members if JSON_NAME[f.name] in td]
            if in_json != want_wire:
                bad("json", selected or members[0].name, f"group {g}: to_dict has members {in_json}, selected {selected!r}; dict={td!r}")
        if obj.p != model["p"]:
            out.append((base + ["plain-field", "int32"], f"p={obj.p} model {model['p']}"))
        if last[0] in ("copy", "deepcopy", "pickle"):
            out.extend(self.check_copy_independent(history, base))
        return out

    def observe_selection(self, o) -> str:
        sel = {g: betterproto.which_one_of(o, g)[0] for g in self.groups}
        return json.dumps([sel, bytes(o).hex(), sorted(o.to_dict())], sort_keys=True)

    def check_copy_independent(self, history, base) -> List[Tuple[List[str], str]]:
        """The oneof selection is per message: selecting a member on a copy (of any kind)
        must not change what the original reports / encodes, and vice versa."""
        out: List[Tuple[List[str], str]] = []
        kind = history[-1][0]
        for f in self.members:
            for vi in (0, 1):
                for mutate_copy in (True, False):
                    orig, _ = self.replay(history[:-1])
                    cp = {"copy": copy.copy, "deepcopy": copy.deepcopy,
                          "pickle": lambda o: pickle.loads(pickle.dumps(o))}[kind](orig)
                    target, other = (cp, orig) if mutate_copy else (orig, cp)
                    before = self.observe_selection(other)
                    try:
                        setattr(target, f.name, self.pyval(f, VALUES[f.name][vi]))
                        after = self.observe_selection(other)
                    except Exception as e:
                        out.append((base + ["copy-aliasing-raised", f.base], f"{type(e).__name__}: {e}"))
                        continue
                    if before != after:
                        who = "copy" if mutate_copy else "original"
                        out.append((base + ["copy-shares-selection", f.base],
                                    f"assigning {f.name} on the {who} changed the other message: {before} -> {after}"))
                        return out
        return out


def _jd(o):
    from datetime import datetime, timedelta
    if isinstance(o, bytes):
        return {"$b": o.hex()}
    if isinstance(o, timedelta):
        return {"$u": o // av.US}
    if isinstance(o, datetime):
        return {"$t": (o - av.EPOCH) // av.US}
    raise TypeError(type(o))


def _jh(d):
    if "$b" in d and len(d) == 1:
        return bytes.fromhex(d["$b"])
    if "$t" in d and len(d) == 1:
        return av.EPOCH + d["$t"] * av.US
    if "$u" in d and len(d) == 1:
        return d["$u"] * av.US
    return d


_SPACES: Dict[str, OneofSpace] = {}


def space(tier: str) -> OneofSpace:
    if tier not in _SPACES:
        _SPACES[tier] = OneofSpace(tier)
    return _SPACES[tier]


def run(ctx: Ctx) -> None:
    sp = space(ctx.tier)
    res = bfs(sp, max_states=400000, is_known=ctx.is_known)
    t = res["tally"]
    for vj in t.violations:
        ctx.add(Violation.from_json(vj))
    # the optional-style message (same engine, separate space)
    res2 = bfs(space("optstyle"), max_states=400000, is_known=ctx.is_known)
    for vj in res2["tally"].violations:
        ctx.add(Violation.from_json(vj))
    ctx.coverage.update(optional_style_states=res2["states"], optional_style_transitions=res2["transitions"],
                        optional_style_fixpoint=bool(res2["fixpoint"]))
    ctx.coverage.update(
        states=res["states"],
        transitions=res["transitions"],
        traces_validated_against_impl=res["transitions"],
        exhaustive=bool(res["fixpoint"]),
        fixpoint_reached=bool(res["fixpoint"]),
        capped=bool(res["capped"]),
        bfs_depth=res["depth"],
        level_sizes=res["level_sizes"],
        operations_in_alphabet=len(sp.ops()),
        samples=[{"history": h} for h in res["sample_histories"]],
        rule="state = canonical complete __dict__ of the real message (+ reference model); every "
             "operation of the alphabet applied in every reachable state; invariant evaluated on every "
             "state: which_one_of, AttributeError on siblings, wire tokens, to_dict keys",
    )
    ctx.assumptions += [
        "alphabet: set each member to default/non-default, plain field, parse of every 0..2 member "
        "records in every order into the live instance, instance/class from_dict, copy, deepcopy, "
        "pickle, reads, constructors (incl. the illegal two-member constructor)",
        "when one call names two members of a group (constructor / class from_dict) either may win, "
        "but exclusivity must hold",
    ]


def replay(case: dict) -> List[Violation]:
    names = {op[1] for op in case["history"] if len(op) > 1 and isinstance(op[1], str)}
    for op in case["history"]:
        if len(op) > 1 and isinstance(op[1], list):
            names |= {x[0] for x in op[1] if isinstance(x, list) and x}
    sp = space("optstyle") if names & {"z", "qa", "qb"} else space("thorough" if any(op[0] in ("set", "read") and op[1] in ("y", "d", "t") for op in case["history"] if len(op) > 1 and isinstance(op[1], str)) else "quick")
    hist = case["history"]
    out = []
    try:
        obj, model = sp.replay(hist)
    except Exception as e:
        return [Violation(sp.op_sig(hist[-1]) + ["raised", type(e).__name__], f"{e}", case)]
    for sig, detail in sp.check(obj, model, hist):
        out.append(Violation(sig, detail, case))
    return out
