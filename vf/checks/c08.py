"""C08 unknown fields survive decode/encode; schema evolution is lossless.

Part A: for newer schemas of 5 fields, EVERY subset of fields deleted (2^5 older
schemas each), all reduced-alphabet values: old reader sees its fields undisturbed,
re-emits the unknown records byte-for-byte, and the newer reader (and the reference)
recover the original message.
Part B: every sequence of <= 2 well-formed unknown records (6 field numbers x 4 wire
types x payload shapes) inserted at every gap of a known encoding.
"""
from __future__ import annotations

import itertools

import betterproto
from typing import Any, Dict, List, Tuple

from vf.core import absval as av
from vf.core import wire
from vf.core.runner import Ctx, Tally, Violation, merge_tallies, pmap_shards
from vf.core.schema import Field, Msg, Schema, build_bp, build_ref
from vf.core.universe import COLOR, LIB_MSGS, Unit, unit_values

LEVEL = "model_checking"

NEWER = {
    "N1": (
        Field("a", 1, "int32"), Field("b", 2, "fixed32"), Field("c", 15, "double"),
        Field("d", 16, "string"), Field("e", 2047, "msg:Sub"),
    ),
    "N2": (
        Field("a", 1, "sint64", "repeated"), Field("b", 2, "int32", "map", key="string"),
        Field("x", 15, "bool", "oneof", group="g"), Field("y", 16, "bytes", "oneof", group="g"),
        Field("c", 2048, "int64", "optional"),
    ),
    "N3": (
        Field("a", 1, "string", "repeated"), Field("r", 2, "msg:Rec"), Field("t", 3, "timestamp"),
        Field("w", 4, "wrap:int32"), Field("s", 536870911, "enum:Color"),
    ),
}


def _build():
    msgs = list(LIB_MSGS)
    for name, fields in NEWER.items():
        msgs.append(Msg(name, fields))
        for mask in range(2 ** len(fields)):
            kept = tuple(f for i, f in enumerate(fields) if mask >> i & 1)
            msgs.append(Msg(f"{name}_O{mask}", kept))
    msgs.append(Msg("K", (Field("k1", 5, "int32"), Field("k2", 100, "string"))))
    # nested type evolution: newer nested type Sub{a, s}; the older schema has a field-less placeholder
    msgs.append(Msg("NN", (Field("one", 1, "msg:Sub"), Field("many", 2, "msg:Sub", "repeated"),
                           Field("by", 3, "msg:Sub", "map", key="string"), Field("v", 4, "int32"))))
    msgs.append(Msg("NN_old", (Field("one", 1, "msg:Empty"), Field("many", 2, "msg:Empty", "repeated"),
                               Field("by", 3, "msg:Empty", "map", key="string"), Field("v", 4, "int32"))))
    schema = Schema("vfc08", (COLOR,), tuple(msgs))
    return schema, build_bp(schema, "vf_c08"), build_ref(schema)


_S: Dict[str, Any] = {}


def state():
    if not _S:
        _S["schema"], _S["bp"], _S["ref"] = _build()
    return _S["schema"], _S["bp"], _S["ref"]


def field_values(schema: Schema, f: Field) -> List[Dict[str, Any]]:
    u = Unit(f.kind, "single" if f.card == "oneof" else f.card, f.key)
    vals = unit_values(schema, u, f.name, "reduced")
    return vals[:5]


def newer_values(schema: Schema, name: str) -> List[Dict[str, Any]]:
    fields = NEWER[name]
    per = [field_values(schema, f) for f in fields]
    out = []
    for combo in itertools.product(*per):
        v: Dict[str, Any] = {}
        for d in combo:
            v.update(d)
        # at most one member of a oneof group
        m = Msg(name, fields)
        ok = all(sum(1 for f in ms if f.name in v) <= 1 for ms in m.groups.values())
        if ok:
            out.append(v)
    return out


def eval_evolution(name: str, v: Dict[str, Any], mask: int, tally: Tally) -> List[Tuple[str, str]]:
    schema, bp, ref = state()
    fields = NEWER[name]
    newer = schema.msg(name)
    older = schema.msg(f"{name}_O{mask}")
    kept = {f.number for f in older.fields}
    data = av.make_ref(schema, ref, newer, v).SerializeToString()
    fails: List[Tuple[str, str]] = []
    try:
        o = getattr(bp, older.name)().parse(data)
        tally.inc("edges")
    except Exception as e:
        return [("old-decode", f"{type(e).__name__}: {e}"[:160])]
    exp_old = av.normalize(schema, older, {k: x for k, x in v.items() if any(f.name == k for f in older.fields)})
    try:
        got_old = av.project_bp(schema, older, o)
    except Exception as e:
        return [("old-observe", f"{type(e).__name__}: {e}"[:160])]
    if not av.aval_eq(got_old, exp_old):
        fails.append(("known-disturbed", f"older reader sees {av.to_jsonable(got_old)!r}, expected {av.to_jsonable(exp_old)!r}"))
    try:
        back = bytes(o)
        tally.inc("edges")
    except Exception as e:
        return fails + [("old-encode", f"{type(e).__name__}: {e}"[:160])]
    want_unknown = [r.raw for r in wire.tokenize(data) if r.number not in kept]
    try:
        got_unknown = [r.raw for r in wire.tokenize(back) if r.number not in kept]
    except wire.WireError as e:
        got_unknown = None
        fails.append(("reemit-malformed", f"re-emitted bytes malformed: {e}"))
    if got_unknown is not None and got_unknown != want_unknown:
        fails.append(("unknown-not-preserved", f"unknown records {[x.hex() for x in want_unknown][:4]} re-emitted as {[x.hex() for x in got_unknown][:4]}"))
    # the same bytes through the size-bounded stream path (load(stream, size=N) with more data
    # following): must stop exactly at N and give the same message
    try:
        import io
        st = io.BytesIO(data + b"\x08\x01trailing-bytes-of-the-next-frame")
        o2 = getattr(bp, older.name)().load(st, len(data))
        tally.inc("edges")
        if st.tell() != len(data):
            fails.append(("bounded-load-consumed", f"load(size={len(data)}) left the stream at {st.tell()}"))
        elif bytes(o2) != back:
            fails.append(("bounded-load-differs", f"load(size=N) re-encodes to {bytes(o2).hex()[:60]}, parse() to {back.hex()[:60]}"))
    except Exception as e:
        if data:
            fails.append(("bounded-load-raised", f"load(stream, size={len(data)}) raised {type(e).__name__}: {e}"[:200]))
    exp_new = av.normalize(schema, newer, v)
    try:
        n2 = getattr(bp, newer.name)().parse(back)
        tally.inc("edges")
        got_new = av.project_bp(schema, newer, n2)
        if not av.aval_eq(got_new, exp_new):
            fails.append(("evolution-lossy", f"newer reader sees {av.to_jsonable(got_new)!r}, expected {av.to_jsonable(exp_new)!r}"))
    except Exception as e:
        fails.append(("evolution-lossy", f"{type(e).__name__}: {e}"[:160]))
    try:
        r = ref.cls(newer.name).FromString(back)
        tally.inc("edges")
        if not av.aval_eq(av.project_ref(schema, newer, r), exp_new):
            fails.append(("ref-evolution-lossy", "reference decodes a different message from the re-emitted bytes"))
    except Exception as e:
        fails.append(("ref-evolution-lossy", f"reference rejects re-emitted bytes: {e}"[:160]))
    return fails


def _deleted_label(name: str, v, mask: int) -> str:
    fields = NEWER[name]
    parts = []
    for i, f in enumerate(fields):
        if not mask >> i & 1 and f.name in v:
            parts.append(f"{f.card}:{f.kind}")
    return ",".join(sorted(parts)) or "none-present"


def _shard_a(shard: int, nshards: int, extra) -> Tally:
    schema, bp, ref = state()
    t = Tally()
    i = 0
    for name in NEWER:
        n = len(NEWER[name])
        masks = sorted(range(2 ** n), key=lambda m: (n - bin(m).count("1"), m))  # few deletions first
        for v in _S["values"][name]:
            i += 1
            if i % nshards != shard:
                continue
            failing: List[Tuple[str, int]] = []
            for mask in masks:
                t.inc("cases")
                fails = eval_evolution(name, v, mask, t)
                for oracle, detail in fails:
                    deleted = ~mask & (2 ** n - 1)
                    if any(o2 == oracle and (d2 & deleted) == d2 and d2 != deleted for o2, d2 in failing):
                        t.inc("explained_by_smaller_deletion")
                        continue
                    failing.append((oracle, deleted))
                    t.violate(Violation(
                        ["evolution", oracle, _deleted_label(name, v, mask)],
                        f"{name} value={av.to_jsonable(v)!r} older keeps mask={mask:05b}: {detail}"[:500],
                        {"part": "A", "name": name, "value": av.to_jsonable(v), "mask": mask}))
            if i % 301 == 0:
                t.sample({"newer": name, "value": av.to_jsonable(v), "older": "every subset of fields (32)"})
    return t


# ---------------------------------------------------------------------------
# part B: unknown record sequences at every gap

UNK_NUMBERS = [1, 15, 16, 2047, 2048, 2**29 - 1]


def unknown_alphabet() -> List[wire.Rec]:
    out = []
    for n in UNK_NUMBERS:
        for val in (0, 1, 2**64 - 1):
            out.append(wire.make_rec(n, wire.VARINT, val))
        out.append(wire.make_rec(n, wire.FIXED32, b"\xde\xad\xbe\xef"))
        out.append(wire.make_rec(n, wire.FIXED64, b"\x01\x02\x03\x04\x05\x06\x07\x08"))
        for p in (b"", b"abc", b"\x28\x01" + b"q" * 198):
            out.append(wire.make_rec(n, wire.LEN, p))
    # legal NON-MINIMAL encodings: "byte-for-byte" must hold for them too
    for n in (1, 2047):
        out.append(wire.make_rec(n, wire.LEN, b"abcde", len_pad=3))
        out.append(wire.make_rec(n, wire.LEN, b"", len_pad=2))
        out.append(wire.make_rec(n, wire.VARINT, 7, val_pad=3))
        out.append(wire.make_rec(n, wire.VARINT, 0, val_pad=10))
        out.append(wire.make_rec(n, wire.FIXED32, b"\x01\x02\x03\x04", tag_pad=4))
        out.append(wire.make_rec(n, wire.LEN, b"xy", tag_pad=5, len_pad=5))
    return out


K_VALUES = [{}, {"k1": -1}, {"k2": "é"}, {"k1": 300, "k2": "x" * 130}]


def wt_name(wt: int) -> str:
    return {0: "varint", 1: "fixed64", 2: "len", 5: "fixed32"}[wt]


def eval_insert(kv: Dict[str, Any], seq: List[wire.Rec], gaps: Tuple[int, ...], tally: Tally):
    schema, bp, ref = state()
    K = schema.msg("K")
    base = wire.tokenize(av.make_ref(schema, ref, K, kv).SerializeToString())
    recs = list(base)
    # insert right-to-left so gap indices stay valid; equal gaps keep sequence order
    for rec, g in sorted(zip(seq, gaps), key=lambda x: -x[1]):
        recs.insert(g, rec)
    # restore intended order for equal gaps
    if len(seq) == 2 and gaps[0] == gaps[1]:
        recs = list(base)
        recs[gaps[0]:gaps[0]] = seq
    data = wire.join(recs)
    fails = []
    try:
        o = getattr(bp, "K")().parse(data)
        tally.inc("edges")
        got = av.project_bp(schema, K, o)
    except Exception as e:
        return [("decode", f"{type(e).__name__}: {e}"[:160])], data
    if not av.aval_eq(got, av.normalize(schema, K, kv)):
        fails.append(("known-disturbed", f"known fields read {av.to_jsonable(got)!r}"))
    try:
        back = bytes(o)
        tally.inc("edges")
        got_unknown = [r.raw for r in wire.tokenize(back) if r.number not in (5, 100)]
        want = [r.raw for r in recs if r.number not in (5, 100)]
        if got_unknown != want:
            fails.append(("unknown-not-preserved", f"{[x.hex()[:20] for x in want]} -> {[x.hex()[:20] for x in got_unknown]}"))
        o2 = getattr(bp, "K")().parse(back)
        if bytes(o2) != back:
            fails.append(("reemit-unstable", "second decode/encode pass changes the bytes"))
        r = ref.cls("K").FromString(back)
        if not av.aval_eq(av.project_ref(schema, K, r), av.normalize(schema, K, kv)):
            fails.append(("ref-known-disturbed", "reference reads different known fields from re-emitted bytes"))
    except Exception as e:
        fails.append(("reemit", f"{type(e).__name__}: {e}"[:160]))
    return fails, data


def insert_cases():
    alpha = unknown_alphabet()
    for ki, kv in enumerate(K_VALUES):
        nrec = len([k for k in av.normalize(state()[0], state()[0].msg("K"), kv)])
        gaps = range(nrec + 1)
        for a in range(len(alpha)):
            for g in gaps:
                yield ki, (a,), (g,)
        for a in range(len(alpha)):
            for b in range(len(alpha)):
                for g1 in gaps:
                    for g2 in gaps:
                        if g1 <= g2:
                            yield ki, (a, b), (g1, g2)


def _shard_b(shard: int, nshards: int, extra) -> Tally:
    alpha = unknown_alphabet()
    t = Tally()
    i = 0
    quick = extra
    for ki, idxs, gaps in insert_cases():
        i += 1
        if i % nshards != shard:
            continue
        if quick and len(idxs) == 2 and ki in (1, 2):
            continue  # quick: pairs only around the empty and the two-field message
        seq = [alpha[j] for j in idxs]
        t.inc("cases")
        fails, data = eval_insert(K_VALUES[ki], seq, gaps, t)
        for oracle, detail in fails:
            sig = ["unknown-insert", oracle] + sorted({wt_name(r.wt) for r in seq})
            t.violate(Violation(sig, f"K={K_VALUES[ki]!r} unknown={[r.raw.hex()[:24] for r in seq]} gaps={gaps}: {detail}"[:500],
                                {"part": "B", "k": ki, "idxs": list(idxs), "gaps": list(gaps)}))
        if i % 9973 == 0:
            t.sample({"known": K_VALUES[ki], "unknown_records": [r.raw.hex()[:24] for r in seq], "gaps": list(gaps)})
    return t


# ---------------------------------------------------------------------------
# part D: field-number sweep - one unknown record of EVERY field number in a range
# part E: one instance decoding twice (parse / parse, and two delimited loads)

def sweep_numbers(quick: bool) -> List[int]:
    top = 2**29 - 1
    nums = set(range(1, 70001 if quick else 600001))
    for k in range(1, 30):
        nums.update({2**k - 1, 2**k, 2**k + 1})
    return sorted(n for n in nums if 1 <= n <= top and n not in (5, 100))


def number_class(n: int) -> str:
    if 19000 <= n <= 19999:
        return "number-19000..19999"
    return f"tag-bytes-{len(wire.tag(n, 0))}"


def eval_number(n: int, tally: Tally):
    schema, bp, ref = state()
    K = schema.msg("K")
    kv = {"k1": 7, "k2": "x"}
    base = wire.tokenize(av.make_ref(schema, ref, K, kv).SerializeToString())
    fails = []
    for wt, payload in ((wire.VARINT, 3), (wire.LEN, b"ab")) if n % 2 else ((wire.FIXED32, b"\x01\x02\x03\x04"), (wire.FIXED64, b"\x01\x02\x03\x04\x05\x06\x07\x08")):
        rec = wire.make_rec(n, wt, payload)
        recs = [base[0], rec] + list(base[1:])
        data = wire.join(recs)
        try:
            o = bp.K().parse(data)
            back = bytes(o)
            tally.inc("edges", 2)
        except Exception as e:
            fails.append(("decode", f"record {rec.raw.hex()}: {type(e).__name__}: {e}"[:200]))
            continue
        if not av.aval_eq(av.project_bp(schema, K, o), av.normalize(schema, K, kv)):
            fails.append(("known-disturbed", f"record {rec.raw.hex()}: known fields read {o!r}"[:200]))
        if [r.raw for r in wire.tokenize(back) if r.number not in (5, 100)] != [rec.raw]:
            fails.append(("unknown-not-preserved", f"record {rec.raw.hex()} re-emitted as {back.hex()[:60]}"))
    return fails


def _shard_d(shard: int, nshards: int, quick) -> Tally:
    t = Tally()
    nums = sweep_numbers(quick)
    for idx in range(shard, len(nums), nshards):
        n = nums[idx]
        t.inc("cases")
        for oracle, detail in eval_number(n, t):
            t.violate(Violation(["unknown-number", oracle, number_class(n)], f"field number {n}: {detail}"[:400],
                                {"part": "D", "n": n}), cap_per_sig=1)
    return t


TWICE_INPUTS = None


def twice_inputs():
    global TWICE_INPUTS
    if TWICE_INPUTS is None:
        schema, bp, ref = state()
        K = schema.msg("K")
        u = [wire.make_rec(7, wire.VARINT, 1), wire.make_rec(8, wire.LEN, b"zz"), wire.make_rec(2047, wire.FIXED32, b"\x01\x02\x03\x04")]
        outs = []
        for kv in ({}, {"k1": 3}, {"k2": "q"}):
            base = list(wire.tokenize(av.make_ref(schema, ref, K, kv).SerializeToString()))
            outs.append((kv, base))
            for r in u:
                outs.append((kv, base + [r]))
                outs.append((kv, [r] + base))
            outs.append((kv, [u[0]] + base + [u[1]]))
        TWICE_INPUTS = outs
    return TWICE_INPUTS


def eval_twice(i: int, j: int, how: str, tally: Tally):
    """ONE instance decodes input i and then input j: the unknown fields of both are kept, in
    order; known scalars: the later one wins (what the reference's MergeFromString gives)."""
    import io
    schema, bp, ref = state()
    K = schema.msg("K")
    (kv1, r1), (kv2, r2) = twice_inputs()[i], twice_inputs()[j]
    d1, d2 = wire.join(r1), wire.join(r2)
    fails = []
    try:
        o = bp.K()
        first = None
        if how == "parse":
            o.parse(d1)
            o.parse(d2)
        elif how in ("copy-then-parse", "deepcopy-then-parse"):
            # decoding more input into a COPY: the copy ends up like an instance that decoded both,
            # the original still re-emits exactly what it decoded
            import copy as _copy
            first = bp.K().parse(d1)
            before = bytes(first)
            o = _copy.copy(first) if how == "copy-then-parse" else _copy.deepcopy(first)
            o.parse(d2)
            if bytes(first) != before or len(first) != len(before):
                return [("twice-copy-shares-unknown", f"decoding into the {how.split('-')[0]} changed the original: "
                         f"{before.hex()} -> {bytes(first).hex()} (len() {len(first)})")]
        else:
            s = io.BytesIO(wire.delimited(d1) + wire.delimited(d2))
            o.load(s, betterproto.SIZE_DELIMITED)
            o.load(s, betterproto.SIZE_DELIMITED)
        back = bytes(o)
        tally.inc("edges", 3)
    except Exception as e:
        return [("decode-twice", f"{type(e).__name__}: {e}"[:200])]
    r = ref.cls("K").FromString(d1)
    r.MergeFromString(d2)
    want_known = av.project_ref(schema, K, r)
    if not av.aval_eq(av.project_bp(schema, K, o), want_known):
        fails.append(("twice-known", f"known fields {o!r}, reference merge gives {av.to_jsonable(want_known)!r}"[:300]))
    want_unknown = [x.raw for x in r1 + r2 if x.number not in (5, 100)]
    got_unknown = [x.raw for x in wire.tokenize(back) if x.number not in (5, 100)]
    if got_unknown != want_unknown:
        fails.append(("twice-unknown-lost", f"unknown records after two decodes {[x.hex() for x in got_unknown]}, expected {[x.hex() for x in want_unknown]}"[:300]))
    return fails


NN_VALUES = [
    {"one": {"a": 1}}, {"one": {"s": "x", "a": -1}}, {"many": [{"a": 1}, {}, {"s": "q"}]},
    {"by": {"k": {"a": 5}}}, {"by": {"": {"s": "z"}, "k": {}}}, {"one": {"a": 2}, "many": [{"a": 3}], "by": {"k": {"a": 4}}, "v": 9},
]


def eval_nested_evolution(v, tally: Tally):
    """The older reader knows the nested field but not the nested type's fields."""
    schema, bp, ref = state()
    newer, older = schema.msg("NN"), schema.msg("NN_old")
    data = av.make_ref(schema, ref, newer, v).SerializeToString()
    fails = []
    try:
        o = bp.NN_old().parse(data)
        back = bytes(o)
        tally.inc("edges", 2)
    except Exception as e:
        return [("nested-old-decode", f"{type(e).__name__}: {e}"[:160])]
    exp = av.normalize(schema, newer, v)
    try:
        n2 = bp.NN().parse(back)
        got = av.project_bp(schema, newer, n2)
        tally.inc("edges")
        if not av.aval_eq(got, exp):
            fails.append(("nested-evolution-lossy", f"after the older reader/writer the newer reader sees {av.to_jsonable(got)!r}, expected {av.to_jsonable(exp)!r}"))
        r = ref.cls("NN").FromString(back)
        if not av.aval_eq(av.project_ref(schema, newer, r), exp):
            fails.append(("nested-ref-evolution-lossy", "reference decodes a different message from the re-emitted bytes"))
    except Exception as e:
        fails.append(("nested-evolution-lossy", f"{type(e).__name__}: {e}"[:160]))
    return fails


def run(ctx: Ctx) -> None:
    schema, bp, ref = state()
    _S["values"] = {name: newer_values(schema, name) for name in NEWER}
    ta = merge_tallies(pmap_shards(_shard_a, 64, None))
    tb = merge_tallies(pmap_shards(_shard_b, 64, ctx.quick))
    tc = Tally()
    for vi, v in enumerate(NN_VALUES):
        tc.inc("cases")
        for oracle, detail in eval_nested_evolution(v, tc):
            tc.violate(Violation(["evolution", oracle, "nested-type-without-fields"],
                                 f"NN value={av.to_jsonable(v)!r}: {detail}"[:500], {"part": "C", "vi": vi}))
    td = merge_tallies(pmap_shards(_shard_d, 64, ctx.quick))
    te = Tally()
    n_in = len(twice_inputs())
    for i in range(n_in):
        for j in range(n_in):
            for how in ("parse", "load", "copy-then-parse", "deepcopy-then-parse"):
                te.inc("cases")
                for oracle, detail in eval_twice(i, j, how, te):
                    te.violate(Violation(["decode-twice", oracle, how], f"inputs {wire.join(twice_inputs()[i][1]).hex()} then "
                                         f"{wire.join(twice_inputs()[j][1]).hex()}: {detail}"[:500],
                                         {"part": "E", "i": i, "j": j, "how": how}), cap_per_sig=1)
    for t in (ta, tb, tc, td, te):
        for vj in t.violations:
            ctx.add(Violation.from_json(vj))
    states = sum(t.n.get("cases", 0) for t in (ta, tb, tc, td, te))
    ctx.coverage.update(
        states=states,
        transitions=ta.n.get("edges", 0) + tb.n.get("edges", 0),
        traces_validated_against_impl=states,
        exhaustive=True,
        evolution_cases=ta.n.get("cases", 0),
        newer_values={k: len(v) for k, v in _S["values"].items()},
        older_schemas_per_newer=32,
        unknown_insertion_cases=tb.n.get("cases", 0),
        unknown_record_alphabet=len(unknown_alphabet()),
        field_numbers_swept=td.n.get("cases", 0),
        decode_twice_cases=te.n.get("cases", 0),
        explained_by_smaller_deletion=ta.n.get("explained_by_smaller_deletion", 0),
        samples=ta.samples[:3] + tb.samples[:3],
        rule="state = (newer schema, value, subset of fields the older schema keeps) or "
             "(known message, sequence of <=2 unknown records, gap positions); each is decoded, "
             "re-encoded and decoded again by betterproto and by the reference",
    )
    ctx.assumptions += [
        "newer schemas: 3 five-field messages spanning all wire types, packed, map, oneof, optional, nested, enum",
        "quick tier: unknown-record pairs only around 2 of the 4 known messages; thorough: all",
    ]


def replay(case: dict) -> List[Violation]:
    schema, bp, ref = state()
    t = Tally()
    out = []
    if case["part"] == "C":
        return [Violation(["evolution", o, "nested-type-without-fields"], d, case)
                for o, d in eval_nested_evolution(NN_VALUES[case["vi"]], t)]
    if case["part"] == "D":
        return [Violation(["unknown-number", o, number_class(case["n"])], d, case) for o, d in eval_number(case["n"], t)]
    if case["part"] == "E":
        return [Violation(["decode-twice", o, case["how"]], d, case)
                for o, d in eval_twice(case["i"], case["j"], case["how"], t)]
    if case["part"] == "A":
        v = av.from_jsonable(case["value"])
        for oracle, detail in eval_evolution(case["name"], v, case["mask"], t):
            out.append(Violation(["evolution", oracle, _deleted_label(case["name"], v, case["mask"])], detail, case))
    else:
        alpha = unknown_alphabet()
        seq = [alpha[j] for j in case["idxs"]]
        fails, _ = eval_insert(K_VALUES[case["k"]], seq, tuple(case["gaps"]), t)
        for oracle, detail in fails:
            out.append(Violation(["unknown-insert", oracle] + sorted({wt_name(r.wt) for r in seq}), detail, case))
    return out
