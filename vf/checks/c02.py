"""C02 wire interoperability with google.protobuf, incl. every legal re-encoding."""
from __future__ import annotations

from typing import Any, Dict, List

from vf.core import absval as av
from vf.core import reencode, wire
from vf.core.runner import Ctx, HarnessError, Tally, Violation, merge_tallies, pmap_shards
from vf.core.smallscope import (Fail, encode_case, guarded, hkey, limit_memory, replay_case,
                                run_universe, signature)
from vf.core.universe import TypeCase, Universe, get_universe

LEVEL = "model_checking"
ROUTES = ("bp->ref", "ref->bp")


def oracle(u: Universe, tc: TypeCase, aval: Dict[str, Any], route: str, tally: Tally) -> List[Fail]:
    exp = av.normalize(u.schema, tc.msg, aval)
    cls = getattr(u.bp, tc.msg.name)
    refcls = u.ref.cls(tc.msg.name)
    if route == "bp->ref":
        try:
            m = av.make_bp(u.bp, u.schema, tc.msg, aval, "ctor")
            b = bytes(m)
        except Exception as e:
            return [("encode", f"{type(e).__name__}: {e}"[:200])]
        tally.inc("edges")
        try:
            r = refcls.FromString(b)
        except Exception as e:
            return [("ref-rejects", f"reference cannot decode {b.hex()[:80]}: {e}"[:200])]
        tally.inc("edges")
        p = av.project_ref(u.schema, tc.msg, r)
        if not av.aval_eq(p, exp):
            return [("ref-sees", f"reference decodes {av.to_jsonable(p)!r}, expected {av.to_jsonable(exp)!r}; bytes={b.hex()[:80]}")]
        tally.mark("outcomes", hkey(tc.msg.name, b))
        return []
    ref = av.make_ref(u.schema, u.ref, tc.msg, aval)
    data = ref.SerializeToString()
    # model binding: the wire model must accept what the reference wrote
    if not wire.well_formed(data):
        raise HarnessError(f"wire model rejects reference bytes {data.hex()}")
    try:
        m = cls().parse(data)
        tally.inc("edges")
        p = av.project_bp(u.schema, tc.msg, m)
    except Exception as e:
        return [("decode", f"{type(e).__name__}: {e} on {data.hex()[:80]}"[:200])]
    if not av.aval_eq(p, exp):
        return [("bp-sees", f"betterproto decodes {av.to_jsonable(p)!r}, expected {av.to_jsonable(exp)!r}; bytes={data.hex()[:80]}")]
    return []


def routes_fn(tc, aval):
    return ROUTES


# ---------------------------------------------------------------------------
# re-encodings

_RE: Dict[str, Any] = {}


def op_class(label: str) -> str:
    """Signature component: operator names without repetition counts."""
    return label


def eval_reenc(u: Universe, tc: TypeCase, aval, depth: int, max_full: int, tally: Tally,
               only_label: str = None) -> List[Violation]:
    out: List[Violation] = []
    exp = av.normalize(u.schema, tc.msg, aval)
    refcls = u.ref.cls(tc.msg.name)
    cls = getattr(u.bp, tc.msg.name)
    data = av.make_ref(u.schema, u.ref, tc.msg, aval).SerializeToString()
    seen_sigs = set()
    for label, enc in reencode.reencodings(u.schema, tc.msg, data, depth, max_full):
        if only_label is not None and label != only_label:
            continue
        tally.inc("reencodings_generated")
        try:
            r = refcls.FromString(enc)
            legal = av.aval_eq(av.project_ref(u.schema, tc.msg, r), exp)
        except Exception:
            legal = False
        if not legal:
            tally.inc("illegal_dropped")
            tally.mark("illegal_ops", label.split("+")[-1])
            continue
        if not wire.well_formed(enc):
            raise HarnessError(f"wire model rejects an encoding the reference accepts: {enc.hex()}")
        tally.inc("legal")
        tally.mark("legal_ops", label)
        tally.inc("edges")
        try:
            m = cls().parse(enc)
            p = av.project_bp(u.schema, tc.msg, m)
            ok = av.aval_eq(p, exp)
            detail = f"decoded {av.to_jsonable(p)!r}, expected {av.to_jsonable(exp)!r}"
            if ok and tc.msg.groups:
                # "the same values": for oneof groups also that NO other member is left behind - the
                # decoded message and a deep copy of it (rebuilt from every stored value) encode alike,
                # and unselected members are unreadable
                import copy as _copy
                dc = _copy.deepcopy(m)
                if bytes(dc) != bytes(m):
                    ok = False
                    detail = (f"decoded message re-encodes to {bytes(m).hex()[:60]}, its deep copy (rebuilt from the "
                              f"stored values) to {bytes(dc).hex()[:60]}")
                else:
                    import betterproto as _bp
                    for g, members in tc.msg.groups.items():
                        sel = _bp.which_one_of(m, g)[0]
                        for f in members:
                            if f.name != sel:
                                try:
                                    getattr(m, f.name)
                                    ok = False
                                    detail = f"oneof {g}: member {f.name} is readable although {sel!r} is selected"
                                except AttributeError:
                                    pass
        except Exception as e:
            ok = False
            detail = f"{type(e).__name__}: {e}"[:200]
        if ok:
            continue
        culprit = aval
        if len(aval) > 1:
            # attribute the failure: a field whose PLAIN reference encoding already fails to
            # decode is the culprit (e.g. the known map<K, wrapper> defect), not the operator
            for k in aval:
                r1 = {k: aval[k]}
                try:
                    d1 = av.make_ref(u.schema, u.ref, tc.msg, r1).SerializeToString()
                    ok1 = av.aval_eq(av.project_bp(u.schema, tc.msg, cls().parse(d1)),
                                     av.normalize(u.schema, tc.msg, r1))
                except Exception:
                    ok1 = False
                if not ok1:
                    culprit = r1
                    tally.inc("reenc_failures_attributed_to_plain_decode")
                    break
        base_sig = signature(u, "reenc", tc.msg, culprit)
        sig = ["reenc", op_class(label)] + base_sig[1:4]
        k = tuple(sig)
        if k in seen_sigs:
            continue
        seen_sigs.add(k)
        case = encode_case(u.tier, tc, aval, "reenc")
        case.update(label=label, depth=depth, max_full=max_full, encoding=enc.hex())
        out.append(Violation(sig, f"{tc.msg.name} aval={av.to_jsonable(aval)!r} op={label} enc={enc.hex()[:80]}: {detail}"[:600], case))
    return out


def _shard_reenc(shard: int, nshards: int, extra) -> Tally:
    u: Universe = _RE["u"]
    depth, max_full, tags = extra
    limit_memory()
    t = Tally()
    i = 0
    for ti, tc, vi, aval in u.cases():
        if tc.tag not in tags:
            continue
        i += 1
        if i % nshards != shard:
            continue
        t.inc("reenc_cases")
        for v in eval_reenc(u, tc, aval, depth, max_full, t):
            t.violate(v, cap_per_sig=1)
        if i % 499 == 0:
            t.sample({"type": tc.msg.name, "aval": av.to_jsonable(aval), "what": "all re-encodings"})
    return t


def run(ctx: Ctx) -> None:
    u = get_universe(ctx.tier)
    t = run_universe(ctx, u, oracle, routes_fn)
    _RE["u"] = u
    if ctx.quick:
        plans = [(1, 3, ("T1", "T2S", "REC"))]
    else:
        plans = [(1, 4, ("T1", "T2S", "REC", "T2")), (2, 3, ("T1", "T2S"))]
    tr = Tally()
    for depth, max_full, tags in plans:
        tr.merge(merge_tallies(pmap_shards(_shard_reenc, 64, (depth, max_full, tags))))
    for vj in tr.violations:
        ctx.add(Violation.from_json(vj))
    ctx.coverage.update(
        states=t.n.get("cases", 0) + tr.n.get("legal", 0),
        transitions=t.n.get("edges", 0) + tr.n.get("edges", 0),
        traces_validated_against_impl=t.n.get("cases", 0) + tr.n.get("legal", 0),
        exhaustive=True,
        direction_cases=t.n.get("cases", 0),
        reencoded_cases=tr.n.get("reenc_cases", 0),
        reencodings_generated=tr.n.get("reencodings_generated", 0),
        reencodings_legal=tr.n.get("legal", 0),
        reencodings_illegal_dropped=tr.n.get("illegal_dropped", 0),
        legal_operator_labels=sorted(tr.sets.get("legal_ops", ()))[:60],
        illegal_operator_labels=sorted(tr.sets.get("illegal_ops", ())),
        reencoding_plans=[{"depth": d, "full_permutations_up_to": n, "types": list(tg)} for d, n, tg in plans],
        failures_explained_by_restriction=t.n.get("failures_explained_by_restriction", 0),
        samples=t.samples[:3] + tr.samples[:3],
        rule="state = (type, value, direction) or (type, value, legal re-encoding); legality of a "
             "re-encoding is decided by the reference decoder; every state is decoded by betterproto",
    )
    ctx.assumptions += [
        "value alphabets as C01",
        "duplicated singular *message* fields (merge semantics) and over-wide varints for 32-bit kinds "
        "are outside the property's list and are not generated",
    ]


def replay(case: dict) -> List[Violation]:
    if case.get("route") != "reenc":
        return replay_case(oracle, case, get_universe)
    u = get_universe(case["universe"])
    tc = next(t for t in u.types if t.msg.name == case["type"])
    aval = av.from_jsonable(case["aval"])
    return eval_reenc(u, tc, aval, case["depth"], case["max_full"], Tally(), only_label=case["label"])
