"""C12 AsyncChannel: exactly-once ordered delivery, no stranded receiver.

Stateless exploration of ALL schedules (semantics A, see vf/core/sched.py) of small
configurations of the real AsyncChannel on the real asyncio.Queue / Task / wait_for.
"""
from __future__ import annotations

import asyncio
import gc
import itertools
import json
from typing import Any, Dict, List, Optional, Tuple

from betterproto.grpc.grpclib_client import ServiceStub
from betterproto.grpc.util.async_channel import AsyncChannel, ChannelClosed, ChannelDone

from vf.core.runner import Ctx, HarnessError, Tally, Violation, merge_tallies, pmap_shards
from vf.core.sched import Env, Execution, ReplayDivergence, explore

LEVEL = "model_checking"

# A configuration: dict with
#   senders:   list of [mode, n_items]   mode in send | send_from | send_from_close | send_from_async
#   receivers: list of kind              kind in receive | aiter | stub
#   closer:    bool   (a task that calls close())
#   buffer:    int
#   cancel:    index of the receiver cancelled by a canceller task, or None
#   timeout:   index of the receiver whose receive is wrapped in wait_for, or None


def cfg_name(c: Dict[str, Any]) -> str:
    s = "+".join(f"{m}{n}" for m, n in c["senders"])
    r = "+".join(c["receivers"])
    x = f"S[{s}] R[{r}] buf{c['buffer']}"
    if c["closer"]:
        x += " closer" + ("x%d" % c["closers"] if c.get("closers", 1) > 1 else "")
    if c.get("cancel") is not None:
        x += f" cancel{c['cancel']}"
    if c.get("timeout") is not None:
        x += f" timeout{c['timeout']}"
    if c.get("polls"):
        x += f" polls{c['polls']}"
    if c.get("early"):
        x += " created-before-loop"
    if c.get("close_via", "task") != "task":
        x += " close-via-" + c["close_via"]
    return x


def cfg_class(c: Dict[str, Any]) -> str:
    if c.get("cancel") is not None:
        return "cancel"
    if c.get("timeout") is not None:
        return "timeout"
    return "plain"


class FakeStream:
    def __init__(self, env: Env, rid: int):
        self.env, self.rid = env, rid

    async def send_message(self, message):
        self.env.log("recv", self.rid, message)
        await self.env.point(f"r{self.rid}.sent")

    async def end(self):
        self.env.log("iter_end", self.rid)


class FalsyItem(str):
    """A channel item that is falsy, like a betterproto message holding only default values
    (``bool(Msg()) is False``): it must be delivered like any other item."""

    def __bool__(self) -> bool:
        return False


def make_tasks(env: Env, cfg: Dict[str, Any], ch: AsyncChannel) -> Dict[str, Any]:
    loop = asyncio.get_running_loop()
    tasks: Dict[str, asyncio.Task] = {}

    async def sender(sid: int, mode: str, n: int):
        # every other item (starting with the first) is falsy
        items = [FalsyItem(f"s{sid}i{k}") if k % 2 == 0 else f"s{sid}i{k}" for k in range(n)]
        if mode == "send":
            for it in items:
                await env.point(f"s{sid}")
                env.log("send_call", sid, it)
                try:
                    await ch.send(it)
                    env.log("sent", sid, it)
                except ChannelClosed:
                    env.log("send_rejected", sid, it)
            return
        await env.point(f"s{sid}")
        env.log("send_from_call", sid, items)
        src: Any = items
        if mode in ("send_from_async", "send_from_async_raise"):
            async def agen():
                for k, it in enumerate(items):
                    await env.point(f"s{sid}.gen")
                    if mode == "send_from_async_raise" and k == len(items) - 1:
                        raise RuntimeError("source failed")  # after the earlier items were handed over
                    yield it
            src = agen()
        try:
            await ch.send_from(src, close=(mode == "send_from_close"))
            env.log("sent_all", sid, items)
            if mode == "send_from_close":
                env.log("close")
        except ChannelClosed:
            env.log("send_from_rejected", sid, items)
        except RuntimeError:
            # the source failed: what it had yielded before was sent; the channel stays usable
            env.log("sent_all", sid, items[:-1])
            env.log("source_raised", sid)

    async def closer():
        await env.point("closer")
        if cfg.get("close_via") == "callback":
            # close() invoked by the loop as a plain callback (add_done_callback / call_soon style):
            # there is no current task at that moment
            def do_close():
                env.log("close")
                ch.close()
            loop.call_soon(do_close)
            return
        env.log("close")
        ch.close()

    async def receiver(rid: int, kind: str, timeout: bool):
        if kind == "stub":
            await env.point(f"r{rid}")
            await ServiceStub._send_messages(FakeStream(env, rid), ch)
            return
        it = ch.__aiter__() if kind in ("aiter", "mixed") else None
        first = True
        while True:
            await env.point(f"r{rid}")
            env.log("recv_call", rid)
            try:
                # 'mixed': one receive() call, then iteration
                if kind == "aiter" or (kind == "mixed" and not first):
                    coro = it.__anext__()
                else:
                    coro = ch.receive()
                first = False
                if timeout:
                    x = await asyncio.wait_for(coro, timeout=1.0)
                else:
                    x = await coro
            except StopAsyncIteration:
                env.log("iter_end", rid)
                return
            except ChannelDone:
                env.log("recv_done", rid)
                return
            except asyncio.TimeoutError:
                env.log("timeout", rid)
                raise
            if x is None and kind in ("receive", "mixed"):
                env.log("recv_none", rid)
                return
            env.log("recv", rid, x)

    async def poller():
        # closed() and done() are observers: monotone, and done() implies closed()
        for _ in range(int(cfg.get("polls", 0))):
            await env.point("poller")
            env.log("poll", bool(ch.closed()), bool(ch.done()))

    async def canceller(rid: int):
        await env.point("canceller")
        env.log("cancel_issued", rid)
        tasks[f"r{rid}"].cancel()

    for sid, (mode, n) in enumerate(cfg["senders"]):
        tasks[f"s{sid}"] = loop.create_task(sender(sid, mode, n))
    for rid, kind in enumerate(cfg["receivers"]):
        tasks[f"r{rid}"] = loop.create_task(receiver(rid, kind, cfg.get("timeout") == rid))
    if cfg["closer"]:
        tasks["closer"] = loop.create_task(closer())
    for extra in range(1, int(cfg.get("closers", 1))):
        tasks[f"closer{extra}"] = loop.create_task(closer())
    if cfg.get("cancel") is not None:
        tasks["canceller"] = loop.create_task(canceller(cfg["cancel"]))
    if cfg.get("polls"):
        tasks["poller"] = loop.create_task(poller())
    return tasks


def run_config(cfg: Dict[str, Any], prefix: List[int]) -> Tuple[List[int], List[int], Dict[str, Any]]:
    ex = Execution(prefix)
    holder: Dict[str, Any] = {}

    early = None
    if cfg.get("early"):
        # the channel object is created in synchronous code, BEFORE any event loop runs
        # (module level, or an __init__ called ahead of asyncio.run)
        import warnings
        with warnings.catch_warnings():
            warnings.simplefilter("ignore")
            early = AsyncChannel(buffer_limit=cfg["buffer"])

    def setup(env: Env):
        ch = early if early is not None else AsyncChannel(buffer_limit=cfg["buffer"])
        holder["ch"] = ch
        holder["tasks"] = make_tasks(env, cfg, ch)
        return list(holder["tasks"].values())

    from asyncio import events
    res = ex.run(setup)
    tasks: Dict[str, asyncio.Task] = holder["tasks"]
    ch: AsyncChannel = holder["ch"]
    log = list(ex.log)
    n_choices = len(ex.choices)
    state = {}
    for name, t in tasks.items():
        if not t.done():
            state[name] = "pending"
        elif t.cancelled():
            state[name] = "cancelled"
        elif t.exception() is not None:
            state[name] = "exc:" + type(t.exception()).__name__
        else:
            state[name] = "done"
    # ---- drain phase (default schedule, no recorded choices) ------------------
    drained: List[Any] = []
    post: Dict[str, Any] = {}
    closed_in_run = any(e[0] == "close" for e in log)
    events._set_running_loop(ex.loop)
    try:
        async def drain():
            if not ch.closed():
                ch.close()
            while True:
                try:
                    x = await ch.receive()
                except ChannelDone:
                    break
                if x is None:
                    break
                drained.append(x)
            # once done: later receive / iteration / send must be refused
            try:
                await ch.receive()
                post["receive"] = "returned"
            except ChannelDone:
                post["receive"] = "ChannelDone"
            try:
                await ch.__anext__()
                post["anext"] = "returned"
            except StopAsyncIteration:
                post["anext"] = "StopAsyncIteration"
            try:
                await ch.send("late")
                post["send"] = "accepted"
            except ChannelClosed:
                post["send"] = "ChannelClosed"
            try:
                await ch.send_from(["late2"])
                post["send_from"] = "accepted"
            except ChannelClosed:
                post["send_from"] = "ChannelClosed"

        # receivers still blocked must not steal from the drain: cancel them first
        for name, t in tasks.items():
            if not t.done():
                t.cancel()
        for _ in range(200):
            if not ex.loop.ready_count():
                break
            ex.loop.run_iteration()
        dt = ex.loop.create_task(drain())
        for _ in range(2000):
            if dt.done():
                break
            if ex.loop.ready_count():
                ex.loop.run_iteration()
            elif ex.loop.pending_timers():
                ex.loop.fire_next_timer()
            else:
                break
        post["drain_finished"] = dt.done() and not dt.cancelled() and dt.exception() is None
        if dt.done() and not dt.cancelled() and dt.exception() is not None:
            post["drain_exception"] = type(dt.exception()).__name__
    finally:
        events._set_running_loop(None)
    ex.finish(list(tasks.values()) + [dt])
    gc.collect(1)
    loop_excs = [str(c.get("message")) + ":" + type(c.get("exception")).__name__ for c in ex.loop.exceptions]
    result = {"log": log, "state": state, "drained": drained, "post": post,
              "loop_exceptions": loop_excs, "livelock": ex.livelock, "closed": closed_in_run}
    return ex.choices[:n_choices], ex.widths[:n_choices], result


def judge(cfg: Dict[str, Any], res: Dict[str, Any]) -> List[Tuple[str, str]]:
    """Evaluate the property on one complete execution.  Returns (oracle, detail)."""
    out: List[Tuple[str, str]] = []
    log = res["log"]
    state = res["state"]
    if res["livelock"]:
        return [("livelock", "step horizon exceeded")]
    close_idx = next((i for i, e in enumerate(log) if e[0] == "close"), None)
    all_items = {f"s{sid}i{k}" for sid, (m, n) in enumerate(cfg["senders"]) for k in range(n)}
    sent_idx: Dict[str, int] = {}
    for i, e in enumerate(log):
        if e[0] == "sent":
            sent_idx[e[2]] = i
        elif e[0] == "sent_all":
            for it in e[2]:
                sent_idx[it] = i
    must = {it for it, i in sent_idx.items() if close_idx is None or i <= close_idx}
    recv = [(i, e[1], e[2]) for i, e in enumerate(log) if e[0] == "recv"]
    got = [x for _, _, x in recv]
    for x in got + res["drained"]:
        if x not in all_items:
            out.append(("invented", f"received {x!r} which nobody sent"))
    seen = set()
    for x in got + res["drained"]:
        if x in seen:
            out.append(("duplicate", f"{x!r} received twice"))
        seen.add(x)
    # order per sender in dequeue order (receivers first, then drain)
    order = got + res["drained"]
    for sid in range(len(cfg["senders"])):
        mine = [x for x in order if x.startswith(f"s{sid}i")]
        if mine != sorted(mine, key=lambda s: int(s.split("i")[1])):
            out.append(("order", f"items of sender {sid} dequeued as {mine}"))
    # after close: later sends rejected
    if close_idx is not None:
        for i, e in enumerate(log):
            if e[0] == "send_call" and i > close_idx:
                sid, it = e[1], e[2]
                if it in sent_idx and not any(x[0] == "send_rejected" and x[2] == it for x in log):
                    out.append(("send-after-close-accepted", f"send({it!r}) called after close() returned normally"))
            if e[0] == "send_from_call" and i > close_idx:
                if any(x[0] == "sent_all" and x[1] == e[1] for x in log):
                    out.append(("send-after-close-accepted", f"send_from by sender {e[1]} called after close() returned normally"))
    cancelled_rid = cfg.get("cancel")
    timeout_rid = cfg.get("timeout")
    cancel_issued = next((i for i, e in enumerate(log) if e[0] == "cancel_issued"), None)
    # task end states
    for name, st in state.items():
        if name.startswith("r"):
            rid = int(name[1:])
            if st == "pending":
                if res["closed"]:
                    out.append(("stranded-receiver", f"{name} still blocked at quiescence although the channel was closed"))
                continue
            if st == "done":
                continue
            if st == "cancelled" and rid == cancelled_rid and cancel_issued is not None:
                continue
            if st == "exc:TimeoutError" and rid == timeout_rid:
                continue
            if rid == cancelled_rid and cancel_issued is not None:
                out.append(("cancel-surfaces-wrong", f"cancelled receiver {name} ended as {st}"))
            elif rid == timeout_rid:
                out.append(("timeout-surfaces-wrong", f"timed-out receiver {name} ended as {st}"))
            else:
                out.append(("task-exception", f"{name} ended as {st}"))
        else:
            if st == "pending":
                # a sender blocked on a full bounded buffer after every receiver finished: recorded
                if name.startswith("s") and cfg["buffer"] > 0:
                    continue
                out.append(("task-pending", f"{name} never finished"))
            elif st != "done":
                out.append(("task-exception", f"{name} ended as {st}"))
    for e in res["loop_exceptions"]:
        out.append(("loop-exception", e))
    polls = [(i, e[1], e[2]) for i, e in enumerate(log) if e[0] == "poll"]
    for (i, c, d) in polls:
        if d and not c:
            out.append(("observer-inconsistent", f"done() is True while closed() is False (log index {i})"))
        if close_idx is not None and i > close_idx and not c:
            out.append(("observer-inconsistent", f"closed() is False after close() returned (log index {i})"))
        if close_idx is not None and i < close_idx and c and not any(e[0] == "close" for e in log[:i]):
            out.append(("observer-inconsistent", f"closed() is True before any close() (log index {i})"))
    # (done() itself may legitimately go back to False: a send that passed the closed check before
    # close() and was blocked on a full buffer completes afterwards - the property only speaks of
    # sends that COMPLETED before the close.  A first version demanded monotone done(): false alarm.)
    for (i1, c1, d1), (i2, c2, d2) in zip(polls, polls[1:]):
        if c1 and not c2:
            out.append(("observer-not-monotone", f"closed() went from True back to False"))
    # exactly-once delivery of everything sent before close (receivers or drain)
    for it in sorted(must):
        if it not in got and it not in res["drained"]:
            out.append(("lost", f"{it!r} was sent before close but is neither received nor obtainable from the channel"))
    # surviving receivers that keep receiving until done must have received it themselves,
    # unless a blocked receiver was cancelled / timed out and left the item for later receivers
    survivors_end = {}
    for i, e in enumerate(log):
        if e[0] in ("recv_none", "recv_done", "iter_end"):
            survivors_end[e[1]] = i
    undelivered = [it for it in sorted(must) if it not in got and it in res["drained"]]
    if undelivered and res["closed"]:
        disturbed = cancelled_rid is not None or timeout_rid is not None
        if not disturbed:
            out.append(("undelivered", f"{undelivered} left in the channel although every receiver ran until done"))
        else:
            # premature done: the LAST live receiver was told 'done' while the item was queued,
            # after the disturbance (cancel issued / timeout fired) had already happened
            dist_idx = cancel_issued if cancelled_rid is not None else next(
                (i for i, e in enumerate(log) if e[0] == "timeout"), None)
            for rid, j in survivors_end.items():
                if rid in (cancelled_rid, timeout_rid):
                    continue
                others_done = all(
                    (r == rid) or (r in (cancelled_rid, timeout_rid)) or (survivors_end.get(r, 10**9) < j)
                    for r in range(len(cfg["receivers"])))
                if dist_idx is not None and dist_idx < j and others_done and all(sent_idx[it] < j for it in undelivered):
                    out.append(("premature-done", f"receiver {rid} was told the channel is done while {undelivered} was still queued (after the cancellation/timeout)"))
    post = res["post"]
    if not post.get("drain_finished"):
        out.append(("unusable-after", f"a fresh receiver cannot drain the channel: {post}"))
    else:
        if post.get("receive") != "ChannelDone":
            out.append(("later-receive", f"receive() after done: {post.get('receive')}"))
        if post.get("anext") != "StopAsyncIteration":
            out.append(("later-receive", f"__anext__ after done: {post.get('anext')}"))
        if post.get("send") != "ChannelClosed" or post.get("send_from") != "ChannelClosed":
            out.append(("send-after-close-accepted", f"send after close: {post.get('send')}/{post.get('send_from')}"))
    seen_o, uniq = set(), []
    for o, d in out:
        if o not in seen_o:
            seen_o.add(o)
            uniq.append((o, d))
    return uniq


def outcome_key(res: Dict[str, Any]) -> str:
    recv = [(e[1], e[2]) for e in res["log"] if e[0] == "recv"]
    ends = sorted((e[0], e[1]) for e in res["log"] if e[0] in ("recv_none", "recv_done", "iter_end", "timeout"))
    rej = sorted(e[2] if e[0] == "send_rejected" else str(e[1]) for e in res["log"] if e[0] in ("send_rejected", "send_from_rejected"))
    return json.dumps([recv, ends, rej, sorted(res["state"].items()), res["drained"]])


# ---------------------------------------------------------------------------
# configuration space


def configs(tier: str) -> List[Tuple[Dict[str, Any], Optional[int], int]]:
    """(config, deviation bound or None for full enumeration, max executions)."""
    out: List[Tuple[Dict[str, Any], Optional[int], int]] = []
    FULL = None

    def add(senders, receivers, closer=True, buffer=0, cancel=None, timeout=None, bound=FULL, cap=400000, closers=1, polls=0,
            early=False, close_via="task"):
        out.append(({"senders": senders, "receivers": receivers, "closer": closer, "buffer": buffer,
                     "cancel": cancel, "timeout": timeout, "closers": closers, "polls": polls,
                     "early": early, "close_via": close_via}, bound, cap))

    quick = tier == "quick"
    kinds = ["receive", "aiter"]
    # small configurations: full enumeration
    for k in kinds + ["stub"]:
        add([["send", 1]], [k])
        add([["send", 2]], [k])
        add([["send_from_close", 2]], [k], closer=False)
        add([["send_from", 2]], [k])
    add([["send_from_async", 2]], ["receive"])
    for k1, k2 in itertools.combinations_with_replacement(kinds, 2):
        add([["send", 1]], [k1, k2], bound=4 if quick else FULL)
        add([["send", 2]], [k1, k2], bound=3 if quick else 5)
    # bounded buffers
    for buf in (1, 2):
        add([["send", 2]], ["receive"], buffer=buf)
        add([["send_from_close", 2]], ["aiter"], closer=False, buffer=buf)
        add([["send", 2]], ["receive", "aiter"], buffer=buf, bound=3 if quick else 4)
    # close() called twice (two closer tasks), also with stranded receivers / bounded buffers
    add([["send", 1]], ["receive"], closers=2)
    add([["send", 1]], ["receive", "aiter"], closers=2, bound=3 if quick else FULL)
    add([["send", 2]], ["aiter", "receive"], buffer=1, closers=2, bound=3 if quick else 4)
    # a sender blocked on a full bounded buffer when close() arrives; more stranded receivers than slots
    add([["send", 3]], ["receive"], buffer=1, bound=4 if quick else FULL)
    add([["send", 1]], ["receive", "receive", "aiter"], buffer=1, bound=3 if quick else 4)
    add([["send_from_close", 2]], ["receive", "aiter"], closer=False, buffer=1, bound=4 if quick else FULL)
    add([["send_from_async", 2]], ["aiter", "receive"], bound=3 if quick else 4)
    add([["send_from", 2]], ["receive", "receive"], buffer=2, bound=3 if quick else 4)
    # two senders
    add([["send", 1], ["send", 1]], ["receive"])
    add([["send", 1], ["send", 1]], ["receive", "aiter"], bound=3 if quick else 5)
    add([["send", 2], ["send", 1]], ["aiter"], bound=3 if quick else 5)
    add([["send", 1], ["send", 1]], ["receive"], buffer=1)
    add([["send", 2], ["send", 1]], ["receive", "aiter"], buffer=1, bound=2 if quick else 4)
    # three receivers, two items; a receiver that calls receive() once and then iterates
    add([["send", 2]], ["receive", "aiter", "receive"], bound=2 if quick else 3)
    add([["send", 2]], ["mixed"])
    add([["send", 3]], ["mixed", "receive"], bound=3 if quick else 4)
    # an async source that fails after its first item (the channel must stay usable)
    add([["send_from_async_raise", 2]], ["receive"])
    add([["send_from_async_raise", 2], ["send", 1]], ["aiter"], bound=3 if quick else 5)
    # closed() / done() observed by a polling task between the other tasks' steps
    add([["send", 1]], ["receive"], polls=2)
    add([["send", 2]], ["aiter"], buffer=1, polls=2, bound=4 if quick else FULL)
    add([["send_from_close", 2]], ["receive"], closer=False, polls=2)
    # the channel created before the loop runs; close() invoked as a plain loop callback
    for k in kinds:
        add([["send", 1]], [k, "receive"], early=True, bound=4 if quick else FULL)
        add([["send", 1]], [k, "receive"], close_via="callback", bound=4 if quick else FULL)
    add([["send", 2]], ["aiter", "receive"], buffer=1, early=True, close_via="callback", bound=3 if quick else 4)
    add([["send_from_close", 2]], ["receive", "aiter"], closer=False, early=True, bound=4 if quick else FULL)
    # cancellation of one receiver at any point
    for k in kinds:
        add([["send", 1]], [k], cancel=0)
        add([["send", 1]], [k, k], cancel=0, bound=4 if quick else FULL)
        add([["send", 2]], [k, "receive"], cancel=1, bound=3 if quick else 4)
        add([["send", 1]], [k], cancel=0, closer=False)
    # timeout of one blocked receiver
    for k in kinds:
        add([["send", 1]], [k], timeout=0)
        add([["send", 1]], [k, "receive"], timeout=0, bound=4 if quick else FULL)
    if quick:
        # one more deviation than the per-configuration figures above (measured: the whole quick
        # tier stays well under a minute)
        out[:] = [(c, None if b is None else b + 1, cap) for c, b, cap in out]
    if not quick:
        add([["send", 2]], ["receive", "aiter", "receive"], bound=3, cap=1500000)
        add([["send", 3]], ["receive", "aiter"], bound=3, cap=1500000)
        add([["send", 2], ["send", 2]], ["receive", "aiter"], bound=3, cap=1500000)
        add([["send", 2]], ["receive", "receive"], cancel=0, bound=4, cap=1500000)
    return out


_W: Dict[str, Any] = {}


def _work_items(cfgs) -> List[Tuple[int, List[int], Optional[int]]]:
    """Split every configuration's search tree at the first deviation so that the
    sub-trees can be explored in parallel."""
    items = []
    for ci, (cfg, bound, cap) in enumerate(cfgs):
        choices, widths, _ = run_config(cfg, [])
        items.append((ci, [], 0))  # the default execution alone
        if bound == 0:
            continue
        for i in range(len(choices)):
            for alt in range(1, widths[i]):
                items.append((ci, choices[:i] + [alt], None))
    return items


class _StopSubtree(Exception):
    pass


def _shard(shard: int, nshards: int, extra) -> Tally:
    cfgs, items = _W["cfgs"], _W["items"]
    t = Tally()
    bad_cfg: Dict[int, int] = {}
    for wi in range(shard, len(items), nshards):
        ci, prefix, only = items[wi]
        cfg, bound, cap = cfgs[ci]
        name = cfg_name(cfg)
        seen_sig = set()
        bad_here = [0]
        if bad_cfg.get(ci, 0) > 60:
            t.inc("subtrees_skipped_configuration_already_broken")
            continue

        def on_result(choices, res, cfg=cfg, name=name):
            t.inc("executions")
            t.inc("handles", 0)
            t.mark("outcomes", (ci, outcome_key(res)))
            fails = judge(cfg, res)
            if fails:
                bad_here[0] += 1
                bad_cfg[ci] = bad_cfg.get(ci, 0) + 1
                if bad_here[0] > 20 or bad_cfg[ci] > 60:
                    # this sub-tree of schedules is broken through and through (each livelocked
                    # execution alone runs to the step horizon): the witnesses are in hand
                    raise _StopSubtree()
            for oracle, detail in fails:
                sig = ["channel", oracle, cfg_class(cfg)]
                t.inc("violating_executions")
                if (ci, oracle) in seen_sig:
                    continue
                seen_sig.add((ci, oracle))
                t.violate(Violation(sig, f"{name} schedule={choices}: {detail}"[:500],
                                    {"config": cfg, "schedule": choices}), cap_per_sig=2)

        if only == 0:
            choices, widths, res = run_config(cfg, [])
            on_result(choices, res)
            t.inc("choice_points", len(choices))
            continue
        sub_bound = None if bound is None else bound  # prefix already used one deviation (counted inside explore)
        try:
            stats = explore(lambda p: run_config(cfg, p), sub_bound, max(1000, cap // 8), on_result, start=prefix)
        except _StopSubtree:
            t.inc("subtrees_stopped_after_violating_executions")
            continue
        t.inc("choice_points", stats["choice_points"])
        if stats["capped"]:
            t.inc("capped_subtrees")
            t.mark("capped_configs", name)
        t.mark("max_depth", stats["max_depth"])
    if shard == 0 and items:
        t.sample({"config": cfg_name(cfgs[0][0]), "schedule": "every schedule"})
    return t


def run(ctx: Ctx) -> None:
    cfgs = configs(ctx.tier)
    _W["cfgs"] = cfgs
    _W["items"] = _work_items(cfgs)
    t = merge_tallies(pmap_shards(_shard, 64, None))
    for vj in t.violations:
        ctx.add(Violation.from_json(vj))
    full = [cfg_name(c) for c, b, cap in cfgs if b is None]
    bounded = [{"config": cfg_name(c), "deviation_bound": b} for c, b, cap in cfgs if b is not None]
    capped = sorted(t.sets.get("capped_configs", ()))
    ctx.coverage.update(
        states=len(t.sets.get("outcomes", ())),
        transitions=t.n.get("choice_points", 0),
        traces_validated_against_impl=t.n.get("executions", 0),
        schedules_explored=t.n.get("executions", 0),
        distinct_terminal_outcomes=len(t.sets.get("outcomes", ())),
        configurations=len(cfgs),
        fully_enumerated_configurations=[c for c in full if c not in capped],
        deviation_bounded_configurations=bounded,
        capped_configurations=capped,
        exhaustive=not capped,
        max_choice_depth=max(t.sets.get("max_depth", {0})),
        samples=[{"config": cfg_name(cfgs[0][0]), "schedule": [0, 1, 2, 0]},
                 {"config": cfg_name(cfgs[-1][0]), "schedule": "all within the stated bound"}],
        rule="states = distinct terminal outcomes (who received what, how every task ended, what a drain "
             "finds); transitions = choice points taken; traces = complete executions of the real "
             "AsyncChannel under the virtual loop, one per schedule; configurations listed as fully "
             "enumerated had every choice sequence explored, the others every sequence with at most "
             "the stated number of deviations from the default schedule",
    )
    ctx.assumptions += [
        "semantics A: FIFO iterations; nondeterminism = continue/yield/park at driver points, release of "
        "parked drivers and timer firing at iteration boundaries (what a real asyncio loop can do)",
        "OS threads and loops other than asyncio's FIFO loop are out of scope",
        "'no item lost' after a cancellation/timeout is judged with a drain phase by a fresh receiver",
    ]


def replay(case: dict) -> List[Violation]:
    cfg = case["config"]
    choices, widths, res = run_config(cfg, list(case["schedule"]))
    choices2, widths2, res2 = run_config(cfg, list(case["schedule"]))
    if outcome_key(res) != outcome_key(res2) or choices != choices2:
        raise HarnessError("schedule replay is not deterministic")
    return [Violation(["channel", o, cfg_class(cfg)], d, case) for o, d in judge(cfg, res)]
