"""C14 observers are pure; copy / deepcopy / pickle are faithful and independent.

Explicit-state BFS over the complete internal state of a real message: from every
initial state (constructor, parse incl. unknown fields and present-empty
sub-messages, from_dict) every observer and every copy operation is applied in every
reachable state, to a fixpoint.
"""
from __future__ import annotations

import copy
import json
import pickle
from typing import Any, Dict, List, Tuple

import betterproto

from vf.core import absval as av
from vf.core import wire
from vf.core.explore import OpNotEnabled, Space, bfs
from vf.core.runner import Ctx, Violation
from vf.core.schema import Field, Msg, Schema, build_bp, build_ref
from vf.core.universe import COLOR, LIB_MSGS

LEVEL = "model_checking"

M_FIELDS = (Field("c", 1, "msg:Sub"), Field("v", 2, "int32"))
P_FIELDS = (
    Field("m", 1, "msg:M"), Field("o", 2, "int32", "optional"),
    Field("oi", 3, "int32", "oneof", group="g"), Field("os", 4, "string", "oneof", group="g"),
    Field("mp", 5, "msg:Sub", "map", key="string"), Field("r", 6, "msg:Sub", "repeated"),
    Field("t", 7, "timestamp"), Field("ri", 8, "int32", "repeated"),
    Field("w", 9, "wrap:int32"), Field("e", 10, "enum:Color"),
    Field("em", 11, "msg:Empty"),   # a sub-message type without fields
)
S_FIELDS = (Field("a", 1, "int32"), Field("s", 2, "string"), Field("d", 3, "double"), Field("f", 4, "float"))
SCHEMA = Schema("vfc14", (COLOR,), LIB_MSGS + (Msg("M", M_FIELDS), Msg("P", P_FIELDS), Msg("S", S_FIELDS)))

INIT_VALUES: List[Dict[str, Any]] = [
    {},
    {"m": {}},
    {"m": {"c": {}}},
    {"m": {"c": {"a": 1}, "v": 2}},
    {"o": 0},
    {"oi": 0},
    {"os": "x", "o": 5},
    {"mp": {"k": {}, "j": {"a": 1}}},
    {"r": [{}, {"s": "q"}]},
    {"t": av.TS_ALPHA[3], "ri": [1, 2], "w": 0, "e": -1},
    {"m": {"v": 1}, "mp": {"k": {"a": 2}}, "r": [{"a": 3}], "oi": 7, "e": 7},
    {"m": {"c": {"a": 1}}},
    {"m": {"c": {"s": "x"}}, "ri": [3]},
    {"em": {}},
    {"em": {}, "o": 1},
]
UNKNOWN_A = wire.make_rec(99, wire.VARINT, 5).raw
UNKNOWN_B = wire.make_rec(100, wire.LEN, b"zz").raw
OBSERVERS = [
    "read:m", "read:m.c", "read:m.c.a", "read:m.v", "read:o", "read:oi", "read:os", "read:mp",
    "read:r", "read:t", "read:ri", "read:w", "read:e", "read:em",
    "bytes", "len", "eq", "eq-other-oneof", "bool", "repr", "to_dict", "to_dict_snake", "to_dict_defaults",
    "to_json", "to_pydict", "to_pydict_defaults", "is_set", "which_one_of",
]
COPIERS = ["copy", "deepcopy", "pickle"]
MUTATORS = ["set:o", "set:os", "append:r", "append:ri", "setitem:mp", "nested:m.v", "nested:m.c.a",
            "mutate:r0", "mutate:mp", "set:t", "parse-more", "parse-more-nested"]


class ObsSpace(Space):
    def __init__(self):
        self.schema = SCHEMA
        self.p = SCHEMA.msg("P")
        self.ns = build_bp(SCHEMA, "vf_c14")
        self.ref = build_ref(SCHEMA)

    def initial_histories(self):
        out = []
        for i in range(len(INIT_VALUES)):
            for route in ("ctor", "setattr", "inplace", "parse", "parse_unknown", "from_dict"):
                out.append([["init", i, route]])
            if av.has_lazy_variant(self.schema, self.p, INIT_VALUES[i]):
                # content below sub-messages that were only ever read (m.c.a = 1): the parents are
                # not flagged as present but are not empty either
                out.append([["init", i, "lazy"]])
        return out

    def ops(self):
        return [["obs", o] for o in OBSERVERS] + [["copyop", c] for c in COPIERS]

    def op_sig(self, op):
        return ["purity", op[0], op[1]]

    def init(self, i: int, route: str):
        aval = INIT_VALUES[i]
        P = self.ns.P
        if route in ("ctor", "setattr", "inplace", "lazy"):
            return av.make_bp(self.ns, self.schema, self.p, aval, route)
        data = av.make_ref(self.schema, self.ref, self.p, aval).SerializeToString()
        if route == "parse":
            return P().parse(data)
        if route == "parse_unknown":
            return P().parse(UNKNOWN_A + data + UNKNOWN_B)
        from google.protobuf import json_format
        d = json_format.MessageToDict(av.make_ref(self.schema, self.ref, self.p, aval))
        return P().from_dict(d)

    def replay(self, history):
        obj = None
        for op in history:
            obj, _ = self.apply(obj, None, op)
        return obj, None

    def observe(self, obj, op: str):
        if op.startswith("read:"):
            cur = obj
            for part in op[5:].split("."):
                try:
                    cur = getattr(cur, part)
                except AttributeError:
                    return
            return
        if op == "bytes":
            bytes(obj)
        elif op == "len":
            len(obj)
        elif op == "eq":
            obj == self.ns.P()
            obj == obj
        elif op == "eq-other-oneof":
            # comparisons (both operand orders) with messages whose oneof selection differs
            for other in (self.ns.P(os="x"), self.ns.P(oi=5), self.ns.P(oi=0), self.ns.P(o=1)):
                obj == other
                other == obj
        elif op == "bool":
            bool(obj)
        elif op == "repr":
            repr(obj)
        elif op == "to_dict":
            obj.to_dict()
        elif op == "to_dict_snake":
            obj.to_dict(casing=betterproto.Casing.SNAKE)
        elif op == "to_dict_defaults":
            obj.to_dict(include_default_values=True)
        elif op == "to_json":
            obj.to_json()
        elif op == "to_pydict":
            obj.to_pydict()
        elif op == "to_pydict_defaults":
            obj.to_pydict(include_default_values=True)
        elif op == "is_set":
            for f in self.p.fields:
                obj.is_set(f.name)
        elif op == "which_one_of":
            betterproto.which_one_of(obj, "g")
        else:
            raise ValueError(op)

    def apply(self, obj, model, op):
        if op[0] == "init":
            return self.init(op[1], op[2]), None
        if obj is None:
            raise OpNotEnabled()
        if op[0] == "obs":
            self.observe(obj, op[1])
            return obj, None
        if op[0] == "copyop":
            if op[1] == "copy":
                return copy.copy(obj), None
            if op[1] == "deepcopy":
                return copy.deepcopy(obj), None
            return pickle.loads(pickle.dumps(obj)), None
        raise ValueError(op)

    def key(self, obj, model) -> str:
        return json.dumps(av.canon_internal(obj), sort_keys=True)

    def observable(self, obj) -> Dict[str, Any]:
        """What a user can see: encoding, values + presence, equality class."""
        data = bytes(obj)
        proj = av.project_bp(self.schema, self.p, obj)
        return {
            "bytes": data.hex(),
            "value": json.dumps(av.canon(proj), sort_keys=True),
            "sow_m": betterproto.serialized_on_wire(obj.m),
            "sow_m_c": betterproto.serialized_on_wire(obj.m.c),
            "sow_em": betterproto.serialized_on_wire(obj.em),
            "oneof": betterproto.which_one_of(obj, "g")[0],
            "o_set": obj.o is not None,
            "map_types": sorted(type(v).__name__ for v in obj.mp.values()),
            "rep_types": sorted(type(v).__name__ for v in obj.r),
        }

    def mutate(self, obj, mut: str):
        Sub = self.ns.Sub
        if mut == "set:o":
            obj.o = 41
        elif mut == "set:os":
            obj.os = "mutated"
        elif mut == "append:r":
            obj.r.append(Sub(a=9))
        elif mut == "append:ri":
            obj.ri.append(9)
        elif mut == "setitem:mp":
            obj.mp["new"] = Sub(a=9)
        elif mut == "nested:m.v":
            obj.m.v = 9
        elif mut == "nested:m.c.a":
            obj.m.c.a = 9
        elif mut == "mutate:r0":
            if obj.r:
                obj.r[0].a = 99
        elif mut == "mutate:mp":
            for k in obj.mp:
                obj.mp[k].a = 99
        elif mut == "set:t":
            obj.t = av.TS_ALPHA[1]
        elif mut == "parse-more":
            # decoding further input INTO the copy (known and unknown fields) is a mutation of the copy
            obj.parse(UNKNOWN_B + wire.make_rec(8, wire.VARINT, 3).raw + UNKNOWN_A)
        elif mut == "parse-more-nested":
            obj.m.parse(UNKNOWN_A)
            for x in obj.r:
                x.parse(UNKNOWN_B)

    def check(self, obj, model, history):
        """Edge invariant for the last operation of ``history`` (signatures of histories that start
        from a lazily built state carry a trailing 'lazy-init')."""
        sfx = _sfx(history)
        return [(sig + sfx, d) for sig, d in self._check(obj, model, history)]

    def _check(self, obj, model, history):
        out: List[Tuple[List[str], str]] = []
        op = history[-1]
        if op[0] == "init":
            try:
                self.observable(obj)
            except Exception as e:
                out.append((["purity", "init", op[2], "unobservable", type(e).__name__], f"{e}"))
            return out
        before_obj, _ = self.replay(history[:-1])
        try:
            before = self.observable(before_obj)
        except Exception as e:
            return [(["purity", op[0], op[1], "unobservable-before", type(e).__name__], f"{e}")]
        try:
            after = self.observable(obj)
        except Exception as e:
            return [(["purity", op[0], op[1], "unobservable-after", type(e).__name__], f"{type(e).__name__}: {e}")]
        if op[0] == "obs":
            for k in before:
                if before[k] != after[k]:
                    out.append((["purity", "obs", op[1], "changed", k],
                                f"observer {op[1]} changed {k}: {before[k]!r} -> {after[k]!r}"))
            return out
        # copy operations: faithful ...
        orig, _ = self.replay(history[:-1])
        for k in before:
            if before[k] != after[k]:
                out.append((["purity", "copyop", op[1], "unfaithful", k],
                            f"{op[1]} differs in {k}: original {before[k]!r} copy {after[k]!r}"))
        try:
            if not (obj == orig) or not (orig == obj):
                out.append((["purity", "copyop", op[1], "unfaithful", "eq"], f"{op[1]} != original"))
        except Exception as e:
            out.append((["purity", "copyop", op[1], "unfaithful", "eq-raised"], f"{e}"))
        # ... and independent (deepcopy / pickle)
        if op[1] in ("deepcopy", "pickle"):
            for mut in MUTATORS:
                o2, _ = self.replay(history[:-1])
                if op[1] == "deepcopy":
                    c2 = copy.deepcopy(o2)
                else:
                    c2 = pickle.loads(pickle.dumps(o2))
                k_before = json.dumps(av.canon_internal(o2), sort_keys=True)
                try:
                    self.mutate(c2, mut)
                except Exception as e:
                    out.append((["purity", "copyop", op[1], "mutator-raised", mut], f"{type(e).__name__}: {e}"))
                    continue
                k_after = json.dumps(av.canon_internal(o2), sort_keys=True)
                if k_before != k_after:
                    out.append((["purity", "copyop", op[1], "not-independent", mut],
                                f"mutating the {op[1]} via {mut} changed the original"))
        return out


def _sfx(history) -> List[str]:
    return ["lazy-init"] if history and history[0][0] == "init" and history[0][2] == "lazy" else []


def scalar_only_inputs() -> List[Tuple[str, bytes]]:
    """Encodings of the scalar-only message S that this library would not write itself: other field
    order, an explicit default, a repeated singular field, unknown fields in between, padded varints."""
    import struct
    a = wire.make_rec(1, wire.VARINT, 5).raw
    s = wire.make_rec(2, wire.LEN, b"xy").raw
    d = wire.make_rec(3, wire.FIXED64, struct.pack("<d", 0.1)).raw
    f = wire.make_rec(4, wire.FIXED32, struct.pack("<f", 0.1)).raw
    u1, u2 = wire.make_rec(9, wire.VARINT, 1).raw, wire.make_rec(10, wire.LEN, b"q").raw
    return [
        ("canonical", a + s + d + f), ("reordered", f + d + s + a), ("explicit-default", wire.make_rec(1, wire.VARINT, 0).raw + s),
        ("duplicate-singular", wire.make_rec(1, wire.VARINT, 9).raw + s + a), ("unknown-between", a + u1 + s + u2 + d),
        ("padded-varint", wire.make_rec(1, wire.VARINT, 5, val_pad=3).raw + s), ("empty", b""), ("unknown-only", u2 + u1),
    ]


def check_scalar_only(t) -> List[Violation]:
    """A message class with scalar fields only, decoded from each of those inputs, then observed,
    copied, deep-copied and pickled: copies are equal to it and encode to identical bytes."""
    sp = space()
    S = sp.ns.S
    out: List[Violation] = []
    for label, data in scalar_only_inputs():
        for pre in ([], ["bytes"], ["len", "to_dict"], ["eq"]):
            for cop in COPIERS:
                t.inc("scalar_only_cases")
                try:
                    m = S().parse(data)
                    first = bytes(m)
                    for o in pre:
                        {"bytes": lambda: bytes(m), "len": lambda: len(m), "to_dict": lambda: m.to_dict(), "eq": lambda: m == S()}[o]()
                    c = copy.copy(m) if cop == "copy" else copy.deepcopy(m) if cop == "deepcopy" else pickle.loads(pickle.dumps(m))
                    problems = []
                    if bytes(m) != first:
                        problems.append(f"observers {pre} changed the encoding {first.hex()} -> {bytes(m).hex()}")
                    if bytes(c) != bytes(m):
                        problems.append(f"{cop} encodes {bytes(c).hex()}, the original {bytes(m).hex()}")
                    if not (c == m and m == c):
                        problems.append(f"{cop} is not equal to the original")
                    if len(c) != len(bytes(c)) or len(m) != len(bytes(m)):
                        problems.append("len() disagrees with bytes()")
                except Exception as e:
                    problems = [f"{type(e).__name__}: {e}"]
                for p in problems[:1]:
                    out.append(Violation(["purity", "scalar-only", cop, label], f"S parsed from {data.hex()} ({label}), observers {pre}: {p}"[:400],
                                         {"scalar_only": label, "copier": cop}))
    seen, uniq = set(), []
    for v in out:
        k = tuple(v.signature)
        if k not in seen:
            seen.add(k)
            uniq.append(v)
    return uniq


_SP: Dict[str, ObsSpace] = {}


def space() -> ObsSpace:
    if "s" not in _SP:
        _SP["s"] = ObsSpace()
    return _SP["s"]


def _shard_sequences(shard: int, nshards: int, maxlen: int):
    """ALL observer sequences of length <= maxlen from every initial state, followed by each
    copier - enumerated explicitly, without state merging.  (Merging on the instance's
    __dict__ is blind to state hidden outside the instance: a class-level or module-level
    memo makes an observer impure only on its second call.)"""
    import itertools
    from vf.core.runner import Tally
    sp = space()
    t = Tally()
    inits = sp.initial_histories()
    obs = [["obs", o] for o in OBSERVERS]
    i = 0
    for h0 in inits:
        base_obj, _ = sp.replay(h0)
        try:
            baseline = sp.observable(base_obj)
        except Exception:
            continue
        for ln in range(1, maxlen + 1):
            for seq in itertools.product(range(len(obs)), repeat=ln):
                i += 1
                if i % nshards != shard:
                    continue
                hist = h0 + [obs[j] for j in seq]
                t.inc("sequences")
                try:
                    obj, _ = sp.replay(hist)
                    after = sp.observable(obj)
                except Exception as e:
                    t.violate(Violation(["purity", "obs-seq", obs[seq[-1]][1], "raised", type(e).__name__] + _sfx(hist),
                                        f"history={hist!r}: {type(e).__name__}: {e}"[:400], {"history": hist}))
                    continue
                t.inc("transitions", ln)
                diff = [k for k in baseline if baseline[k] != after[k]]
                if diff:
                    t.violate(Violation(["purity", "obs-seq", obs[seq[-1]][1], "changed", diff[0]] + _sfx(hist),
                                        f"history={hist!r}: {diff[0]}: {baseline[diff[0]]!r} -> {after[diff[0]]!r}"[:400],
                                        {"history": hist}))
                    continue
                if ln == maxlen or ln == 1:
                    for cop in COPIERS:
                        h2 = hist + [["copyop", cop]]
                        try:
                            c_obj, _ = sp.replay(h2)
                            c_after = sp.observable(c_obj)
                        except Exception as e:
                            t.violate(Violation(["purity", "copyop", cop, "raised-after-observers", type(e).__name__] + _sfx(h2),
                                                f"history={h2!r}: {e}"[:300], {"history": h2}))
                            continue
                        t.inc("transitions")
                        d2 = [k for k in baseline if baseline[k] != c_after[k]]
                        if d2:
                            t.violate(Violation(["purity", "copyop", cop, "unfaithful", d2[0]] + _sfx(h2),
                                                f"history={h2!r}: {d2[0]}: {baseline[d2[0]]!r} -> {c_after[d2[0]]!r}"[:400],
                                                {"history": h2}))
    return t


def run(ctx: Ctx) -> None:
    sp = space()
    res = bfs(sp, max_states=60000 if ctx.quick else 400000, max_depth=6 if ctx.quick else 40, is_known=ctx.is_known)
    from vf.core.runner import merge_tallies, pmap_shards
    tseq = merge_tallies(pmap_shards(_shard_sequences, 64, 2 if ctx.quick else 3))
    for vj in tseq.violations:
        ctx.add(Violation.from_json(vj))
    from vf.core.runner import Tally as _T
    ts = _T()
    for v in check_scalar_only(ts):
        ctx.add(v)
    ctx.coverage.update(scalar_only_cases=ts.n.get("scalar_only_cases", 0))
    t = res["tally"]
    for vj in t.violations:
        ctx.add(Violation.from_json(vj))
    ctx.coverage.update(
        states=res["states"],
        transitions=res["transitions"] + tseq.n.get("transitions", 0),
        traces_validated_against_impl=res["transitions"] + tseq.n.get("transitions", 0),
        exhaustive=bool(res["fixpoint"]),
        fixpoint_reached=bool(res["fixpoint"]),
        capped=bool(res["capped"]),
        bfs_depth=res["depth"],
        level_sizes=res["level_sizes"],
        initial_states=len(sp.initial_histories()),
        observer_sequences_without_merging=tseq.n.get("sequences", 0),
        observer_sequence_edges=tseq.n.get("transitions", 0),
        observers=OBSERVERS, copiers=COPIERS, mutators=MUTATORS,
        samples=[{"history": h} for h in res["sample_histories"]],
        rule="state = canonical complete __dict__ of the real message; every observer and copy "
             "operation applied in every reachable state; on every edge the observable projection "
             "(bytes, values, presence, oneof) is compared with a separate replay without the operation",
    )
    ctx.assumptions += [
        "one message class covering nested, optional, oneof, map-of-message, repeated, Timestamp, wrapper, enum",
        "quick tier stops at BFS depth 6 if no fixpoint is reached earlier (reported in 'exhaustive')",
    ]


def replay(case: dict) -> List[Violation]:
    if "scalar_only" in case:
        from vf.core.runner import Tally as _T
        return [v for v in check_scalar_only(_T()) if v.case == case]
    sp = space()
    hist = case["history"]
    try:
        obj, _ = sp.replay(hist)
    except Exception as e:
        return [Violation(sp.op_sig(hist[-1]) + ["raised", type(e).__name__], f"{e}", case)]
    return [Violation(sig, detail, case) for sig, detail in sp.check(obj, None, hist)]
