"""C01 binary round trip: parse(bytes(m)) reproduces m, and re-encoding is stable."""
from __future__ import annotations

from typing import Any, Dict, List

from vf.core import absval as av
from vf.core.runner import Ctx, Tally
from vf.core.smallscope import Fail, hkey, replay_case, run_universe
from vf.core.universe import TypeCase, Universe, fresh_variant, get_universe, lazy_variant

LEVEL = "model_checking"
ROUTES = ("ctor", "setattr", "inplace", "parse")


def build(u: Universe, tc: TypeCase, aval, route: str):
    """Build the betterproto message for a case by the given route."""
    cls = getattr(u.bp, tc.msg.name)
    if route == "parse":
        ref = av.make_ref(u.schema, u.ref, tc.msg, aval)
        return cls().parse(ref.SerializeToString())
    return av.make_bp(u.bp, u.schema, tc.msg, aval, route)


def oracle(u: Universe, tc: TypeCase, aval: Dict[str, Any], route: str, tally: Tally) -> List[Fail]:
    if route.endswith("@604"):
        # the same type declared with PEP 604 / builtin-generic annotations (plugin option typing.310)
        u, route = u.view604(), route[:-4]
    exp = av.normalize(u.schema, tc.msg, aval)
    cls = getattr(u.bp, tc.msg.name)
    fails: List[Fail] = []
    try:
        m = build(u, tc, aval, route)
        tally.inc("edges")
    except Exception as e:
        return [("build", f"{type(e).__name__}: {e}"[:200])]
    try:
        p = av.project_bp(u.schema, tc.msg, m)
    except Exception as e:
        return [("observe", f"{type(e).__name__}: {e}"[:200])]
    if not av.aval_eq(p, exp) and route != "lazy":  # (what a lazily created parent REPORTS is C06's business)
        fails.append(("construct", f"built message reports {av.to_jsonable(p)!r}, expected {av.to_jsonable(exp)!r}"))
    try:
        b = bytes(m)
        tally.inc("edges")
    except Exception as e:
        return fails + [("encode", f"{type(e).__name__}: {e}"[:200])]
    try:
        m2 = cls().parse(b)
        tally.inc("edges")
    except Exception as e:
        return fails + [("decode", f"{type(e).__name__}: {e} on {b.hex()}"[:200])]
    try:
        if not (m2 == m):
            fails.append(("eq", f"parse(bytes(m)) != m; bytes={b.hex()[:80]}"))
        p2 = av.project_bp(u.schema, tc.msg, m2)
        if not av.aval_eq(p2, exp):
            fails.append(("value", f"decoded {av.to_jsonable(p2)!r}, expected {av.to_jsonable(exp)!r}; bytes={b.hex()[:80]}"))
        b2 = bytes(m2)
        tally.inc("edges")
        if b2 != b:
            fails.append(("reencode", f"bytes changed {b.hex()[:60]} -> {b2.hex()[:60]}"))
        m3 = cls.FromString(b)
        if bytes(m3) != b:
            fails.append(("fromstring", "FromString(b) re-encodes differently"))
    except Exception as e:
        fails.append(("observe", f"{type(e).__name__}: {e}"[:200]))
    tally.mark("outcomes", hkey(tc.msg.name, b))
    return fails


FRESH_ROUTES = ("ctor_fresh", "setattr_fresh")


def routes_fn(tc: TypeCase, aval) -> tuple:
    # values holding an EMPTY message in an optional / oneof / repeated / map position are also
    # built with a freshly constructed, untouched instance in that position
    r = ROUTES
    if fresh_variant(tc.msg, aval):
        r = r + FRESH_ROUTES
    if lazy_variant(tc.msg, aval):
        r = r + ("lazy",)  # content placed below sub-messages that are only ever read
    if tc.tag in ("T1", "KS", "TN", "REC"):
        r = r + ("ctor@604", "setattr@604", "parse@604")
    return r


def run(ctx: Ctx) -> None:
    u = get_universe(ctx.tier)
    u.view604()  # built before the workers fork
    t = run_universe(ctx, u, oracle, routes_fn)
    ctx.coverage.update(
        states=t.n.get("cases", 0),
        transitions=t.n.get("edges", 0),
        traces_validated_against_impl=t.n.get("cases", 0),
        exhaustive=True,
        message_types=len(u.types),
        abstract_values=u.count(),
        routes=list(ROUTES),
        distinct_encodings=len(t.sets.get("outcomes", ())),
        failures_explained_by_restriction=t.n.get("failures_explained_by_restriction", 0),
        failing_cases_raw=t.n.get("violations_raw", 0),
        samples=t.samples,
        rule="state = (message type, abstract value, construction route); "
             "edges = build, encode, decode, re-encode on the real implementation",
    )
    ctx.assumptions += [
        "value alphabets: one value per branch visible in the codec (see vf/core/absval.py)",
        "single Timestamp/Duration fields have no presence in betterproto: epoch/zero == unset",
        "-0.0 is outside the alphabet (property text does not mention signed zero)",
    ]


def replay(case: dict):
    return replay_case(oracle, case, get_universe)
