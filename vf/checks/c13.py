"""C13 cross-package type references in generated code resolve to the right class.

Programs: for ALL ordered pairs (referrer, target) of the 15 package paths of depth 0..3
over {a, b}: the target defines {Top, Top.Nested, TopEnum, Top.NestedEnum}; the referrer
uses each of them as field, repeated, map value, oneof member, rpc input and rpc output.
Plus all 15 packages referencing each other at once (circular package dependencies).
"""
from __future__ import annotations

import itertools
from typing import Any, Dict, List, Optional, Tuple

import betterproto

from vf.core import plugin
from vf.core.descmatch import Matcher, class_name
from vf.core.runner import Ctx, HarnessError, Tally, Violation, merge_tallies, pmap_shards

LEVEL = "exploration"
_W: Dict[str, Any] = {}


def packages(maxdepth: int = 3, alphabet: str = "ab") -> List[str]:
    out = [""]
    for d in range(1, maxdepth + 1):
        for tup in itertools.product(alphabet, repeat=d):
            out.append(".".join(tup))
    return out


def relation(r: str, t: str) -> str:
    rp = r.split(".") if r else []
    tp = t.split(".") if t else []
    if rp == tp:
        return "same"
    if not tp:
        return "to-root"
    if not rp:
        return "from-root"
    if tp[:len(rp)] == rp:
        return f"descendant{len(tp) - len(rp)}"
    if rp[:len(tp)] == tp:
        return f"ancestor{len(rp) - len(tp)}"
    common = 0
    for x, y in zip(rp, tp):
        if x != y:
            break
        common += 1
    extra = ""
    if r.startswith(t) or t.startswith(r):
        extra += "+string-prefix"  # one dotted name is a textual prefix of the other without being its ancestor
    if "google" in (rp[0], tp[0]):
        extra += "+google-namespace"  # user packages under google.* (googleapis layout), not the bundled library
    return f"cousin-up{len(rp) - common}-down{len(tp) - common}" + extra


# packages whose NAMES are related although the packages are not: textual prefixes (a.b / a.bc) and
# the google.* namespace the bundled well-known types live in
SPECIAL_PACKAGES = ["ab", "a.ab", "a.ab.b", "a.a.ab", "google.rpc", "google.type.x", "google.a",
                    # segments that snake-casing would alter (versioned API packages)
                    "a.v1beta1", "v2alpha"]
SPECIAL_PARTNERS = ["", "a", "a.a", "a.b", "a.a.b"]


def q(pkg: str, name: str) -> str:
    return f".{pkg}.{name}" if pkg else f".{name}"


def defs_file(pkg: str) -> str:
    out = ['syntax = "proto3";']
    if pkg:
        out.append(f"package {pkg};")
    out.append("message Top { message Nested { int32 x = 1; } enum NestedEnum { NE_ZERO = 0; NE_ONE = 1; } int32 v = 1; Nested n = 2; }")
    out.append("enum TopEnum { TE_ZERO = 0; TE_ONE = 1; }")
    # a message whose name starts lower-case and contains capitals, with nested types
    out.append("message iOSDevice { message Token { int32 t = 1; } enum Kind { K_ZERO = 0; K_ONE = 1; } int32 d = 1; }")
    return "\n".join(out) + "\n"


def path_of(pkg: str, stem: str) -> str:
    return (pkg.replace(".", "/") + "/" if pkg else "") + stem + ".proto"


def refs_file(pkg: str, targets: List[str], suffix: str = "", alias_fields: bool = True) -> str:
    out = ['syntax = "proto3";']
    if pkg:
        out.append(f"package {pkg};")
    for t in targets:
        out.append(f'import "{path_of(t, "defs")}";')
    out.append(f"message Ref{suffix} {{")
    n = 1
    oneofs = []
    for ti, t in enumerate(targets):
        for kind, ty in (("top", "Top"), ("nested", "Top.Nested"), ("enum", "TopEnum"), ("nenum", "Top.NestedEnum")):
            out.append(f"  {q(t, ty)} f{ti}_{kind} = {n};"); n += 1
            out.append(f"  repeated {q(t, ty)} r{ti}_{kind} = {n};"); n += 1
            out.append(f"  map<string, {q(t, ty)}> m{ti}_{kind} = {n};"); n += 1
            oneofs.append(f"    {q(t, ty)} o{ti}_{kind} = {n};"); n += 1
        out.append(f"  {q(t, 'iOSDevice.Token')} lc{ti}_token = {n};"); n += 1
        out.append(f"  {q(t, 'iOSDevice.Kind')} lc{ti}_kind = {n};"); n += 1
        out.append(f"  repeated {q(t, 'iOSDevice')} lc{ti}_devs = {n};"); n += 1
    out.append("  oneof choice {")
    out += oneofs
    out.append("  }")
    # plain fields NAMED like the module aliases the generated code may import the targets under
    # (every dotted suffix of the target path, joined with underscores: 'b', 'a_b', 'items_detail')
    alias_names = []
    for t in targets:
        segs = t.split(".") if t else []
        for k in range(len(segs)):
            nm = "_".join(segs[k:])
            if nm and nm not in alias_names:
                alias_names.append(nm)
    for nm in (alias_names if alias_fields else []):
        out.append(f"  int32 {nm} = {n};"); n += 1
    out.append("}")
    out.append(f"service RefSvc{suffix} {{")
    for ti, t in enumerate(targets):
        out.append(f"  rpc TopToNested{ti} ({q(t, 'Top')}) returns ({q(t, 'Top.Nested')});")
        out.append(f"  rpc NestedToTop{ti} (stream {q(t, 'Top.Nested')}) returns (stream {q(t, 'Top')});")
    out.append("}")
    return "\n".join(out) + "\n"


def check_program(files: Dict[str, str], refs: List[Tuple[str, List[str], str]], label: List[str],
                  t: Tally, opts=None) -> List[Tuple[str, str]]:
    """Compile, import everything, check identity of every reference.  Returns (oracle, detail)."""
    res = plugin.compile_protos(files, opts=opts, tag="c13")
    t.inc("programs")
    out: List[Tuple[str, str]] = []
    try:
        if res.rc != 0:
            if "protoc-gen" not in res.stderr and "Traceback" not in res.stderr:
                raise HarnessError(f"protoc rejects generated schema: {res.stderr[-300:]}")
            return [("plugin-failed", res.stderr[-300:])]
        mt = Matcher(res, pydantic=bool(opts and "pydantic_dataclasses" in opts))
        probs = mt.check_files(list(files))
        t.inc("comparisons", mt.compared)
        seen = set()
        for oracle, where, detail in probs:
            if oracle not in seen:
                seen.add(oracle)
                out.append((oracle, f"{where}: {detail}"))
        if any(o == "import-failed" for o, _ in out):
            return out
        for rpkg, targets, suffix in refs:
            try:
                mod = mt.module(rpkg)
                Ref = getattr(mod, "Ref" + suffix)
                Base = getattr(mod, f"RefSvc{suffix}Base")
                mapping = Base().__mapping__()
            except Exception as e:
                out.append(("rpc-unresolvable", f"{rpkg!r}: {type(e).__name__}: {e}"[:300]))
                continue
            for ti, tp in enumerate(targets):
                tmod = mt.module(tp)
                Top, Nested = tmod.Top, tmod.TopNested
                TopEnum, NEnum = tmod.TopEnum, tmod.TopNestedEnum
                pre = f"/{rpkg + '.' if rpkg else ''}RefSvc{suffix}/"
                h1 = mapping.get(pre + f"TopToNested{ti}")
                h2 = mapping.get(pre + f"NestedToTop{ti}")
                t.inc("comparisons", 4)
                if h1 is None or h2 is None:
                    out.append(("rpc-route-missing", f"routes {sorted(mapping)[:4]}"))
                else:
                    if h1.request_type is not Top or h1.reply_type is not Nested:
                        out.append(("rpc-type", f"TopToNested{ti}: {h1.request_type!r} -> {h1.reply_type!r}"))
                    if h2.request_type is not Nested or h2.reply_type is not Top:
                        out.append(("rpc-type", f"NestedToTop{ti}: {h2.request_type!r} -> {h2.reply_type!r}"))
                # build through the reference and round-trip
                try:
                    kw = {f"f{ti}_top": Top(v=5, n=Nested(x=7)), f"r{ti}_nested": [Nested(x=1), Nested(x=2)],
                          f"m{ti}_enum": {"k": TopEnum(1)}, f"f{ti}_nenum": NEnum(1), f"o{ti}_nested": Nested(x=9)}
                    m = Ref(**kw)
                    back = Ref().parse(bytes(m))
                    t.inc("comparisons")
                    if back != m or type(getattr(back, f"f{ti}_top")) is not Top or \
                            type(getattr(back, f"r{ti}_nested")[0]) is not Nested or \
                            type(getattr(back, f"o{ti}_nested")) is not Nested or \
                            getattr(back, f"f{ti}_nenum") is not NEnum(1):
                        out.append(("roundtrip", f"target {tp!r}: decoded {back!r}"[:300]))
                    d = Ref().from_dict(m.to_dict())
                    if d != m:
                        out.append(("roundtrip-json", f"target {tp!r}: {d!r}"[:300]))
                except Exception as e:
                    out.append(("roundtrip", f"target {tp!r}: {type(e).__name__}: {e}"[:300]))
    finally:
        res.cleanup()
    seen, uniq = set(), []
    for o, d in out:
        if o not in seen:
            seen.add(o)
            uniq.append((o, d))
    return uniq


def rpc_only_file(pkg: str, target: str) -> str:
    """A referrer whose ONLY references to the target package are rpc input/output types."""
    out = ['syntax = "proto3";']
    if pkg:
        out.append(f"package {pkg};")
    out.append(f'import "{path_of(target, "defs")}";')
    out.append("message Local { int32 a = 1; }")
    out.append("service OnlyRpc {")
    out.append(f"  rpc FetchNested ({q(target, 'Top')}) returns ({q(target, 'Top.Nested')});")
    out.append(f"  rpc StreamTops (stream {q(target, 'Top.Nested')}) returns (stream {q(target, 'Top')});")
    out.append(f"  rpc FromLocal (Local) returns ({q(target, 'Top')});")
    out.append("}")
    return "\n".join(out) + "\n"


def check_rpc_only(r: str, tg: str, t: Tally) -> List[Tuple[str, str]]:
    files = {path_of(tg, "defs"): defs_file(tg), path_of(r, "svc"): rpc_only_file(r, tg)}
    res = plugin.compile_protos(files, tag="c13r", want_descriptor=False)
    t.inc("programs")
    out: List[Tuple[str, str]] = []
    try:
        if res.rc != 0:
            return [("plugin-failed", res.stderr[-300:])]
        try:
            mod = res.module(r)
            tmod = res.module(tg)
            mapping = mod.OnlyRpcBase().__mapping__()
            pre = f"/{r + '.' if r else ''}OnlyRpc/"
            a, b, c = mapping[pre + "FetchNested"], mapping[pre + "StreamTops"], mapping[pre + "FromLocal"]
            t.inc("comparisons", 6)
            if a.request_type is not tmod.Top or a.reply_type is not tmod.TopNested or \
                    b.request_type is not tmod.TopNested or b.reply_type is not tmod.Top or \
                    c.request_type is not mod.Local or c.reply_type is not tmod.Top:
                out.append(("rpc-type", f"rpc-only referrer: handler types {a!r} {b!r} {c!r}"[:300]))
            # and the stub side: real calls over grpclib's in-process channel
            import asyncio
            from grpclib.testing import ChannelFor

            class Svc(mod.OnlyRpcBase):
                async def fetch_nested(self, top):
                    return tmod.TopNested(x=top.v + 1)

                async def stream_tops(self, it):
                    async for n in it:
                        yield tmod.Top(v=n.x)

                async def from_local(self, local):
                    return tmod.Top(v=local.a)

            async def drive():
                async with ChannelFor([Svc()]) as ch:
                    stub = mod.OnlyRpcStub(ch)
                    r1 = await stub.fetch_nested(tmod.Top(v=4))
                    r2 = [x async for x in stub.stream_tops([tmod.TopNested(x=1), tmod.TopNested(x=2)])]
                    r3 = await stub.from_local(mod.Local(a=9))
                    return r1, r2, r3

            loop = asyncio.new_event_loop()
            try:
                r1, r2, r3 = loop.run_until_complete(asyncio.wait_for(drive(), 10))
            finally:
                loop.close()
            t.inc("comparisons", 3)
            if type(r1) is not tmod.TopNested or r1.x != 5 or [type(x) for x in r2] != [tmod.Top, tmod.Top] \
                    or [x.v for x in r2] != [1, 2] or type(r3) is not tmod.Top or r3.v != 9:
                out.append(("rpc-call", f"rpc-only referrer: calls returned {r1!r} {r2!r} {r3!r}"[:300]))
        except Exception as e:
            out.append(("rpc-only-unresolvable", f"{type(e).__name__}: {e}"[:300]))
    finally:
        res.cleanup()
    return out


def pair_program(r: str, tg: str, alias_fields: bool = True):
    files = {path_of(tg, "defs"): defs_file(tg), path_of(r, "refs"): refs_file(r, [tg], alias_fields=alias_fields)}
    return files, [(r, [tg], "")]


def all_program(pkgs: List[str], alias_fields: bool = True):
    files = {}
    refs = []
    for p in pkgs:
        files[path_of(p, "defs")] = defs_file(p)
    for i, p in enumerate(pkgs):
        files[path_of(p, "refs")] = refs_file(p, pkgs, suffix="", alias_fields=alias_fields)
        refs.append((p, pkgs, ""))
    return files, refs


def wkt_program(r: str):
    txt = ['syntax = "proto3";']
    if r:
        txt.append(f"package {r};")
    txt += ['import "google/protobuf/timestamp.proto";', 'import "google/protobuf/duration.proto";', 'import "google/protobuf/empty.proto";',
            'import "google/protobuf/struct.proto";', 'import "google/protobuf/wrappers.proto";',
            "message W { google.protobuf.Empty e = 1; google.protobuf.Struct s = 2; repeated google.protobuf.Value vs = 3;",
            "  map<string, google.protobuf.ListValue> ls = 4; google.protobuf.Timestamp t = 5; google.protobuf.Int32Value i = 6;",
            "  oneof o { google.protobuf.Empty oe = 7; } }",
            'service WSvc { rpc E (google.protobuf.Empty) returns (google.protobuf.Struct);',
            '  rpc S (google.protobuf.StringValue) returns (google.protobuf.StringValue);',
            '  rpc T (google.protobuf.Int32Value) returns (stream google.protobuf.Timestamp);',
            '  rpc D (stream google.protobuf.Timestamp) returns (google.protobuf.Duration); }']
    return {path_of(r, "w"): "\n".join(txt) + "\n"}


def check_wkt(r: str, t: Tally) -> List[Tuple[str, str]]:
    import betterproto.lib.google.protobuf as G

    files = wkt_program(r)
    res = plugin.compile_protos(files, tag="c13w")
    t.inc("programs")
    out = []
    try:
        if res.rc != 0:
            return [("plugin-failed", res.stderr[-300:])]
        mt = Matcher(res)
        for oracle, where, detail in mt.check_files(list(files)):
            out.append((oracle, f"{where}: {detail}"))
        t.inc("comparisons", mt.compared)
        if not out:
          try:
            mod = mt.module(r)
            h = mod.WSvcBase().__mapping__()[f"/{r + '.' if r else ''}WSvc/E"]
            t.inc("comparisons", 2)
            if h.request_type is not G.Empty or h.reply_type is not G.Struct:
                out.append(("rpc-type", f"WKT rpc types {h.request_type!r} {h.reply_type!r}"))
            mp = mod.WSvcBase().__mapping__()
            pre = f"/{r + '.' if r else ''}WSvc/"
            want = {"S": (G.StringValue, G.StringValue), "T": (G.Int32Value, G.Timestamp), "D": (G.Timestamp, G.Duration)}
            for name, (rq, rp) in want.items():
                t.inc("comparisons", 2)
                hh = mp[pre + name]
                if hh.request_type is not rq or hh.reply_type is not rp:
                    out.append(("rpc-type", f"WKT rpc {name}: {hh.request_type!r} -> {hh.reply_type!r}, expected {rq.__name__} -> {rp.__name__}"))
            # and through a real call (the stub names the response class itself)
            import asyncio
            from grpclib.testing import ChannelFor

            class Svc(mod.WSvcBase):
                async def s(self, req):
                    return G.StringValue(value=req.value + "!")

            async def drive():
                async with ChannelFor([Svc()]) as ch:
                    return await mod.WSvcStub(ch).s(G.StringValue(value="hi"))

            loop = asyncio.new_event_loop()
            try:
                got = loop.run_until_complete(asyncio.wait_for(drive(), 10))
                if type(got) is not G.StringValue or got.value != "hi!":
                    out.append(("rpc-call", f"WKT rpc S returned {got!r}"))
            except Exception as e:
                out.append(("rpc-call", f"WKT rpc S: {type(e).__name__}: {e}"[:200]))
            finally:
                loop.close()
          except Exception as e:
            out.append(("rpc-unresolvable", f"WKT service: {type(e).__name__}: {e}"[:300]))
    finally:
        res.cleanup()
    return out[:3]


ONE_KINDS = {"mapmsg": "map<string, {T}> f = 1;", "mapenum": "map<int32, {E}> f = 1;",
             "oneof": "oneof c {{ {N} f = 1; int32 g = 2; }}", "repeated": "repeated {N} f = 1;",
             "optional": "optional {T} f = 1;", "plainenum": "{NE} f = 1;"}


def check_one_kind(r: str, tg: str, kind: str, t: Tally) -> List[Tuple[str, str]]:
    """A referrer whose ONLY reference to the target package is one field of one kind (nothing else in
    the module imports the target, so an import emitted in the wrong place is not masked)."""
    decl = ONE_KINDS[kind].format(T=q(tg, "Top"), N=q(tg, "Top.Nested"), E=q(tg, "TopEnum"), NE=q(tg, "Top.NestedEnum"))
    src = 'syntax = "proto3";\n' + (f"package {r};\n" if r else "") + f'import "{path_of(tg, "defs")}";\n' + \
          f"message Only {{ {decl} }}\n"
    files = {path_of(tg, "defs"): defs_file(tg), path_of(r, "only"): src}
    res = plugin.compile_protos(files, tag="c13k", want_descriptor=False)
    t.inc("programs")
    out: List[Tuple[str, str]] = []
    try:
        if res.rc != 0:
            return [("plugin-failed", res.stderr[-300:])]
        try:
            mod = res.module(r)
            tmod = res.module(tg)
            want = {"mapmsg": tmod.Top, "mapenum": tmod.TopEnum, "oneof": tmod.TopNested, "repeated": tmod.TopNested,
                    "optional": tmod.Top, "plainenum": tmod.TopNestedEnum}[kind]
            val = want(1) if kind in ("mapenum", "plainenum") else (want(x=3) if want is tmod.TopNested else want(v=3))
            fv = {"mapmsg": {"k": val}, "mapenum": {4: val}, "repeated": [val]}.get(kind, val)
            m = mod.Only(f=fv)
            back = mod.Only().parse(bytes(m))
            t.inc("comparisons", 2)
            got = back.f
            elem = list(got.values())[0] if isinstance(got, dict) else (got[0] if isinstance(got, list) else got)
            if back != m or (type(elem) is not want and kind != "mapenum") or elem != val:
                out.append(("one-kind-type", f"{kind}: decoded {back!r}, element type {type(elem).__name__}"[:300]))
            if mod.Only().from_dict(m.to_dict()) != m:
                out.append(("one-kind-json", f"{kind}: JSON round trip differs"))
        except Exception as e:
            out.append(("one-kind-failed", f"{kind}: {type(e).__name__}: {e}"[:300]))
    finally:
        res.cleanup()
    return out


def plan(tier: str):
    pk = packages(3)
    items: List[Tuple[str, Any]] = [("pair", (r, t)) for r in pk for t in pk]
    items += [("rpconly", (r, t)) for r in pk for t in pk if r != t]
    sp = SPECIAL_PACKAGES + SPECIAL_PARTNERS
    items += [("pair", (r, t)) for r in sp for t in sp
              if r != t and (r in SPECIAL_PACKAGES or t in SPECIAL_PACKAGES)]
    items += [("rpconly", (r, t)) for r in SPECIAL_PACKAGES for t in SPECIAL_PACKAGES if r != t]
    # all packages referencing each other at once (circular): depth <= 2 in the quick tier
    items.insert(0, ("all", pk if tier == "thorough" else packages(2)))
    items.insert(1, ("all", SPECIAL_PACKAGES + SPECIAL_PARTNERS))
    items += [("wkt", r) for r in pk]
    kp = pk if tier == "thorough" else packages(2)
    items += [("onekind", (r, t, k)) for r in kp for t in kp if r != t for k in ONE_KINDS]
    if tier == "thorough":
        extra = [p for p in packages(4) if p.count(".") == 3][:8] + ["a.x", "b.x", "x.a", "x.b", "a.x.a"]
        items += [("pair", (r, t)) for r in extra for t in pk + extra if r != t]
        items.append(("all", pk + extra))
    return items


def _shard(shard: int, nshards: int, extra) -> Tally:
    t = Tally()
    items = _W["items"]
    for i in range(shard, len(items), nshards):
        kind, arg = items[i]
        if kind == "pair":
            r, tg = arg
            files, refs = pair_program(r, tg)
            label = [relation(r, tg)]
            case = {"kind": "pair", "referrer": r, "target": tg}
            fails = check_program(files, refs, label, t)
        elif kind == "all":
            files, refs = all_program(arg)
            label = [f"all-at-once-{len(arg)}"]
            case = {"kind": "all", "packages": arg}
            fails = check_program(files, refs, label, t)
        elif kind == "onekind":
            r, tg, k = arg
            label = [f"only-{k}:" + relation(r, tg)]
            case = {"kind": "onekind", "referrer": r, "target": tg, "field": k}
            fails = check_one_kind(r, tg, k, t)
        elif kind == "rpconly":
            r, tg = arg
            label = ["rpc-only:" + relation(r, tg)]
            case = {"kind": "rpconly", "referrer": r, "target": tg}
            fails = check_rpc_only(r, tg, t)
        else:
            label = ["wkt-depth%d" % (len(arg.split(".")) if arg else 0)]
            case = {"kind": "wkt", "referrer": arg}
            fails = check_wkt(arg, t)
        t.mark("distinct", (kind, str(arg)))
        t.mark("relations", label[0])
        for oracle, detail in fails:
            t.violate(Violation(["xref", oracle] + label, f"{case}: {detail}"[:500], case), cap_per_sig=1)
        if i % 53 == 0:
            t.sample(case)
    return t


def run(ctx: Ctx) -> None:
    _W["items"] = plan(ctx.tier)
    t = merge_tallies(pmap_shards(_shard, 64, None))
    for vj in t.violations:
        ctx.add(Violation.from_json(vj))
    ctx.coverage.update(
        evaluations=t.n.get("comparisons", 0),
        distinct_nontrivial=len(t.sets.get("distinct", ())),
        programs=t.n.get("programs", 0),
        package_relations=sorted(t.sets.get("relations", ())),
        exhaustive=True,
        samples=t.samples,
        rule="programs = every ordered pair (referrer, target) of the 15 package paths of depth 0..3 over "
             "{a,b} (each alone), all 15 packages referencing each other at once, and well-known types from "
             "every referrer; distinct_nontrivial = distinct programs compiled with the real plugin and "
             "imported; evaluations = identity comparisons (resolved type hint / rpc handler type IS the "
             "class generated for the target) and round trips",
    )
    ctx.assumptions += ["package path alphabet {a,b}; thorough adds depth 4 and same-leaf-name packages"]


def replay(case: dict) -> List[Violation]:
    t = Tally()
    if case["kind"] == "pair":
        files, refs = pair_program(case["referrer"], case["target"])
        label = [relation(case["referrer"], case["target"])]
        fails = check_program(files, refs, label, t)
    elif case["kind"] == "onekind":
        label = [f"only-{case['field']}:" + relation(case["referrer"], case["target"])]
        fails = check_one_kind(case["referrer"], case["target"], case["field"], t)
    elif case["kind"] == "rpconly":
        label = ["rpc-only:" + relation(case["referrer"], case["target"])]
        fails = check_rpc_only(case["referrer"], case["target"], t)
    elif case["kind"] == "all":
        files, refs = all_program(case["packages"])
        label = [f"all-at-once-{len(case['packages'])}"]
        fails = check_program(files, refs, label, t)
    else:
        r = case["referrer"]
        label = ["wkt-depth%d" % (len(r.split(".")) if r else 0)]
        fails = check_wkt(r, t)
    return [Violation(["xref", o] + label, d, case) for o, d in fails]
