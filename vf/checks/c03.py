"""C03 plugin output faithfully implements the schema (translation validation).

Programs: (U) the whole small-scope universe (every field kind x cardinality and all
pairs) rendered to .proto and pushed through the real plugin; (A) every structure atom
alone under 4 package depths and every unordered pair of atoms; (T) every directory of
/repo/tests/inputs; (B) the bundled descriptor / well-known-type classes against
descriptor.proto / plugin.proto.  Oracle: the FileDescriptorSet protoc emits for the same
sources, read with google.protobuf's own descriptor_pb2.
"""
from __future__ import annotations

import dataclasses
import itertools
import os
import betterproto
from typing import Any, Dict, List, Optional, Tuple

from vf.core import atoms as AT
from vf.core import plugin
from vf.core.descmatch import Matcher, TYPE_NAMES
from vf.core.descmatch import resolve_hints
from vf.core.runner import REPO, Ctx, HarnessError, Tally, Violation, merge_tallies, pmap_shards
from vf.core.schema import Schema, render_proto
from vf.core.universe import COLOR, LIB_MSGS, SHADE, get_universe

LEVEL = "translation_validation"
_W: Dict[str, Any] = {}
CHUNK = 25          # messages per .proto file (the plugin's comment lookup is quadratic per file)
PER_RUN = 150       # messages per protoc invocation


def unit_label(name: str) -> str:
    return name.split("_", 1)[1] if "_" in name else name  # T1_single_int32 -> single_int32; TN3 / KS unchanged


def run_universe_chunk(tier: str, start: int, t: Tally) -> List[Violation]:
    u = get_universe(tier)
    lib = {m.name for m in LIB_MSGS}
    others = [m for m in u.schema.msgs if m.name not in lib][start:start + PER_RUN]
    pkg = f"vfu{start}"
    files = {"lib.proto": render_proto(Schema(pkg, (COLOR, SHADE), LIB_MSGS))}
    for i in range(0, len(others), CHUNK):
        txt = render_proto(Schema(pkg, (), tuple(others[i:i + CHUNK])))
        files[f"part{i // CHUNK}.proto"] = txt.replace(f"package {pkg};", f'package {pkg};\nimport "lib.proto";')
    out: List[Violation] = []
    res = plugin.compile_protos(files, tag="c03u")
    t.inc("programs")
    try:
        if res.rc != 0:
            return [Violation(["plugin", "plugin-failed", "universe"], f"chunk {start}: {res.stderr[-400:]}",
                              {"kind": "universe", "tier": tier, "start": start})]
        mt = Matcher(res)
        probs = mt.check_files(list(files))
        t.inc("compared", mt.compared)
        mod = mt.module(pkg) if not any(p[0] == "import-failed" for p in probs) else None
        for oracle, where, detail in probs:
            src = unit_label(where.split(".")[0])
            out.append(Violation(["plugin", oracle, "universe:" + src], f"{where}: {detail}",
                                 {"kind": "universe", "tier": tier, "start": start}))
        # binding: generated classes carry the same metadata as the direct back-end's classes,
        # so the small-scope results on direct classes transfer to generated code
        if mod is not None:
            from vf.core.descmatch import class_name
            for m in others:
                if m.name.startswith("TNR"):
                    continue  # hand-written classes that deliberately do NOT use the plugin's field names
                gen = getattr(mod, class_name([m.name]), None)
                direct = getattr(u.bp, m.name)
                if gen is None:
                    continue
                gm = {f.metadata["betterproto"].number: (f.name, f.metadata["betterproto"]) for f in dataclasses.fields(gen)}
                dm = {f.metadata["betterproto"].number: (f.name, f.metadata["betterproto"]) for f in dataclasses.fields(direct)}
                t.inc("compared", len(dm))
                if gm != dm:
                    out.append(Violation(["plugin", "differs-from-field-api-class", "universe:" + unit_label(m.name)],
                                         f"{m.name}: generated {gm!r} vs direct {dm!r}"[:500],
                                         {"kind": "universe", "tier": tier, "start": start}))
                # and behave the same on one value
                try:
                    tc = next(x for x in u.types if x.msg.name == m.name)
                    from vf.core import absval as av
                    for aval in tc.values[1:3]:
                        ns = type("NS", (), {})()
                        for nm in dir(mod):
                            setattr(ns, nm, getattr(mod, nm))
                        for lm in list(LIB_MSGS) + [m]:
                            setattr(ns, lm.name, getattr(mod, class_name([lm.name])))
                        g = av.make_bp(ns, u.schema, m, aval, "ctor")
                        d = av.make_bp(u.bp, u.schema, m, aval, "ctor")
                        t.inc("compared")
                        if bytes(g) != bytes(d):
                            out.append(Violation(["plugin", "generated-encodes-differently", "universe:" + unit_label(m.name)],
                                                 f"{m.name} {aval!r}: {bytes(g).hex()} vs {bytes(d).hex()}"[:300],
                                                 {"kind": "universe", "tier": tier, "start": start}))
                except Exception as e:
                    if "wrap" not in m.name or "map" not in m.name:
                        out.append(Violation(["plugin", "generated-unusable", "universe:" + unit_label(m.name)],
                                             f"{m.name}: {type(e).__name__}: {e}"[:300],
                                             {"kind": "universe", "tier": tier, "start": start}))
    finally:
        res.cleanup()
    return out


def run_atoms(names_list: List[Tuple[Tuple[str, ...], str]], t: Tally, opts: Optional[List[str]] = None) -> List[Violation]:
    """One protoc run for a batch of (atom names, package) schemas (each its own root package)."""
    files: Dict[str, str] = {}
    meta: Dict[str, Tuple[Tuple[str, ...], str, str]] = {}
    for i, (names, pkg) in enumerate(names_list):
        root = f"s{i}"
        package = root + ("." + pkg if pkg else "")
        fn = f"{root}.proto"
        files[fn] = AT.render([AT.ATOM_BY_NAME[n] for n in names], package)
        meta[fn] = (names, pkg, package)
    out: List[Violation] = []
    res = plugin.compile_protos(files, opts=opts, tag="c03a")
    t.inc("protoc_runs")
    try:
        if res.rc != 0:
            # find the culprit(s) by compiling individually
            if len(names_list) > 1:
                for item in names_list:
                    out.extend(run_atoms([item], t, opts))
                return out
            names, pkg = names_list[0]
            t.inc("programs")
            kind = "protoc-rejects-schema" if "protoc-gen" not in res.stderr and "Traceback" not in res.stderr else "plugin-failed"
            if kind == "protoc-rejects-schema":
                raise HarnessError(f"atom schema {names} is not valid proto3: {res.stderr[-300:]}")
            return [Violation(["plugin", "plugin-failed"] + sorted(names), f"{names} pkg={pkg!r}: {res.stderr[-400:]}",
                              {"kind": "atoms", "atoms": list(names), "package": pkg})]
        for fn, (names, pkg, package) in meta.items():
            t.inc("programs")
            mt = Matcher(res)
            probs = mt.check_files([fn])
            t.inc("compared", mt.compared)
            seen = set()
            for oracle, where, detail in probs:
                if oracle in seen:
                    continue
                seen.add(oracle)
                out.append(Violation(["plugin", oracle] + sorted(names), f"{names} pkg={pkg!r} {where}: {detail}",
                                     {"kind": "atoms", "atoms": list(names), "package": pkg}))
            if not probs:
                # the generated Host must be usable: construct, encode, decode
                try:
                    from vf.core.descmatch import class_name
                    Host = getattr(mt.module(package), "Host")
                    h = Host()
                    if bytes(h) != b"" or Host().parse(b"") != h:
                        out.append(Violation(["plugin", "generated-unusable"] + sorted(names), "fresh Host misbehaves",
                                             {"kind": "atoms", "atoms": list(names), "package": pkg}))
                    h.to_dict()
                    t.inc("compared")
                    # ... and so must every other message class of the module (generated
                    # __post_init__ bodies, e.g. the deprecation warnings, only run on construction)
                    import warnings
                    mod = mt.module(package)
                    for cname, cls in sorted(vars(mod).items()):
                        if isinstance(cls, type) and issubclass(cls, betterproto.Message) and cls.__module__ == mod.__name__:
                            with warnings.catch_warnings():
                                warnings.simplefilter("ignore")
                                inst = cls()
                                if bytes(inst) != b"" or cls().parse(b"") != inst:
                                    raise AssertionError(f"fresh {cname} misbehaves")
                                inst.to_dict()
                                cls().from_dict({})
                            t.inc("compared")
                except Exception as e:
                    out.append(Violation(["plugin", "generated-unusable"] + sorted(names),
                                         f"{names}: {type(e).__name__}: {e}"[:300],
                                         {"kind": "atoms", "atoms": list(names), "package": pkg}))
    finally:
        res.cleanup()
    return out


def _closure(files: Dict[str, str], start: str) -> List[str]:
    import re
    seen, todo = [], [start]
    while todo:
        f = todo.pop()
        if f in seen or f not in files:
            continue
        seen.append(f)
        todo += re.findall(r'import\s+"([^"]+)"\s*;', files[f])
    return sorted(seen)


def run_partial(t: Tally) -> List[Violation]:
    """protoc is asked for ONE file of the multi-file program at a time; the other files reach the
    plugin only as imports.  The requested file and everything it imports must come out complete."""
    import warnings
    files = dict(AT.MULTI_FILES)
    out: List[Violation] = []
    for req in sorted(files):
        res = plugin.compile_protos(files, tag="c03p", request=[req])
        t.inc("programs")
        case = {"kind": "partial", "request": req}
        try:
            if res.rc != 0:
                out.append(Violation(["plugin", "plugin-failed", "partial-request"], f"request {req}: {res.stderr[-300:]}", case))
                continue
            need = _closure(files, req)
            mt = Matcher(res)
            probs = mt.check_files(need)
            t.inc("compared", mt.compared)
            for oracle, where, detail in probs[:1]:
                out.append(Violation(["plugin", oracle, "partial-request"], f"request {req} (with imports {need}): {where}: {detail}"[:400], case))
            if probs:
                continue
            try:
                pkgs = sorted({(files[f].split("package ")[1].split(";")[0] if "package " in files[f] else "") for f in need})
                for pkg in pkgs:
                    mod = mt.module(pkg)
                    for cname, cls in sorted(vars(mod).items()):
                        if isinstance(cls, type) and issubclass(cls, betterproto.Message) and cls.__module__ == mod.__name__:
                            with warnings.catch_warnings():
                                warnings.simplefilter("ignore")
                                inst = cls()
                                if bytes(inst) != b"" or cls().parse(b"") != inst:
                                    raise AssertionError(f"fresh {cname} misbehaves")
                                inst.to_dict()
                            t.inc("compared")
            except Exception as e:
                out.append(Violation(["plugin", "generated-unusable", "partial-request"],
                                     f"request {req}: {type(e).__name__}: {e}"[:300], case))
        finally:
            res.cleanup()
    return out


def run_multi(t: Tally) -> List[Violation]:
    files = dict(AT.MULTI_FILES)
    res = plugin.compile_protos(files, tag="c03m")
    t.inc("programs")
    out: List[Violation] = []
    try:
        if res.rc != 0:
            if "protoc-gen" not in res.stderr and "Traceback" not in res.stderr:
                raise HarnessError("multi-file program is not valid proto3: " + res.stderr[-300:])
            return [Violation(["plugin", "plugin-failed", "multi-file-program"], res.stderr[-400:], {"kind": "multi"})]
        mt = Matcher(res)
        probs = mt.check_files(list(files))
        t.inc("compared", mt.compared)
        seen = set()
        for oracle, where, detail in probs:
            if oracle not in seen:
                seen.add(oracle)
                out.append(Violation(["plugin", oracle, "multi-file-program"], f"{where}: {detail}", {"kind": "multi"}))
        if not probs:
            try:
                pm, rm = mt.module("p"), mt.module("p.r")
                for svc, n in (("S1", 1), ("S2", 4)):
                    mp = getattr(pm, svc + "Base")().__mapping__()
                    t.inc("compared", n)
                    if len(mp) != n or any(h.request_type is not pm.M2 for h in mp.values()):
                        out.append(Violation(["plugin", "service-mapping", "multi-file-program"],
                                             f"{svc}: {sorted(mp)}", {"kind": "multi"}))
                h = rm.S3Base().__mapping__()["/p.r.S3/Up"]
                if h.request_type is not pm.M2 or h.reply_type is not pm.M1:
                    out.append(Violation(["plugin", "service-mapping", "multi-file-program"], "S3 types", {"kind": "multi"}))
                r = rm.R(up=pm.M2(a=1), opt_up=pm.M1(e=pm.E1(1)), deep=pm.M1In(x=pm.E2(-1)), oe=pm.E2(0), em={3: pm.E1(1)})
                if rm.R().parse(bytes(r)) != r or rm.R().from_dict(r.to_dict()) != r:
                    out.append(Violation(["plugin", "generated-unusable", "multi-file-program"], "R does not round-trip", {"kind": "multi"}))
            except Exception as e:
                out.append(Violation(["plugin", "generated-unusable", "multi-file-program"],
                                     f"{type(e).__name__}: {e}"[:300], {"kind": "multi"}))
    finally:
        res.cleanup()
    return out


CORPUS_XFAIL = {"example"}  # the README example, "not a test" upstream


def run_corpus(dirname: str, t: Tally) -> List[Violation]:
    src = os.path.join(REPO, "tests", "inputs", dirname)
    protos = sorted(f for f in os.listdir(src) if f.endswith(".proto"))
    if not protos:
        return []
    files = {f: open(os.path.join(src, f)).read() for f in protos}
    res = plugin.compile_protos(files, tag="c03t")
    t.inc("programs")
    out: List[Violation] = []
    try:
        if res.rc != 0:
            if "protoc-gen" not in res.stderr and "Traceback" not in res.stderr:
                t.inc("corpus_rejected_by_protoc")
                return []
            return [Violation(["plugin", "plugin-failed", "corpus:" + dirname], res.stderr[-400:],
                              {"kind": "corpus", "dir": dirname})]
        mt = Matcher(res)
        syntax = {fd.name: fd.syntax for fd in mt.fds.file}
        p3 = [f for f in protos if syntax.get(f, "") == "proto3"]
        probs = mt.check_files(p3)
        t.inc("compared", mt.compared)
        seen = set()
        for oracle, where, detail in probs:
            if oracle in seen:
                continue
            seen.add(oracle)
            out.append(Violation(["plugin", oracle, "corpus:" + dirname], f"{where}: {detail}",
                                 {"kind": "corpus", "dir": dirname}))
    finally:
        res.cleanup()
    return out


def check_bundled(t: Tally) -> List[Violation]:
    """Bundled descriptor / WKT / plugin classes vs descriptor.proto, plugin.proto & co."""
    import importlib

    import betterproto
    from google.protobuf import (any_pb2, api_pb2, descriptor_pb2, duration_pb2, empty_pb2, field_mask_pb2,
                                 source_context_pb2, struct_pb2, timestamp_pb2, type_pb2, wrappers_pb2)
    from google.protobuf.compiler import plugin_pb2

    out: List[Violation] = []
    pools = [descriptor_pb2, any_pb2, api_pb2, duration_pb2, empty_pb2, field_mask_pb2, source_context_pb2,
             struct_pb2, timestamp_pb2, type_pb2, wrappers_pb2, plugin_pb2]
    ref_msgs: Dict[str, Any] = {}

    def walk(prefix, d):
        ref_msgs[prefix + d.name] = d
        for n in d.nested_types:
            walk(prefix + d.name, n)

    for mod in pools:
        for d in mod.DESCRIPTOR.message_types_by_name.values():
            walk("", d)
    for modname in ("betterproto.lib.std.google.protobuf", "betterproto.lib.std.google.protobuf.compiler",
                    "betterproto.lib.pydantic.google.protobuf", "betterproto.lib.pydantic.google.protobuf.compiler"):
        mod = importlib.import_module(modname)
        for cname, cls in sorted(vars(mod).items()):
            if not (isinstance(cls, type) and issubclass(cls, betterproto.Message) and cls.__module__ == modname):
                continue
            d = ref_msgs.get(cname)
            if d is None:
                t.inc("bundled_classes_without_reference")
                continue
            t.inc("bundled_classes")
            lib = modname.split(".")[2]
            for f in dataclasses.fields(cls):
                meta = f.metadata["betterproto"]
                # shared by name (python names may carry a trailing underscore for keywords)
                rf = d.fields_by_name.get(f.name) or d.fields_by_name.get(f.name.rstrip("_"))
                if rf is None:
                    continue
                t.inc("compared")
                want_type = TYPE_NAMES[rf.type]
                is_map = rf.message_type is not None and rf.message_type.GetOptions().map_entry
                if is_map:
                    want_type = "map"
                if meta.number != rf.number:
                    out.append(Violation(["plugin", "bundled-field-number", f"{lib}:{cname}"],
                                         f"{modname}.{cname}.{f.name}: number {meta.number}, {d.file.name} says {rf.number}",
                                         {"kind": "bundled"}))
                if meta.proto_type != want_type:
                    out.append(Violation(["plugin", "bundled-field-type", f"{lib}:{cname}"],
                                         f"{modname}.{cname}.{f.name}: type {meta.proto_type}, {d.file.name} says {want_type}",
                                         {"kind": "bundled"}))
                try:
                    hint = resolve_hints(cls)[f.name]
                except Exception:
                    t.inc("bundled_hints_unresolvable")
                    continue
                import typing
                is_list = typing.get_origin(hint) is list
                is_rep = rf.is_repeated if hasattr(rf, "is_repeated") else rf.label == rf.LABEL_REPEATED
                if (bool(is_rep) and not is_map) != is_list:
                    out.append(Violation(["plugin", "bundled-field-label", f"{lib}:{cname}"],
                                         f"{modname}.{cname}.{f.name}: hint {hint!r}, repeated={is_rep}", {"kind": "bundled"}))
    return out


# ---------------------------------------------------------------------------


def plan(tier: str):
    items: List[Tuple[str, Any]] = []
    u = get_universe(tier)
    n = len(u.schema.msgs) - len(LIB_MSGS)
    for start in range(0, n, PER_RUN):
        items.append(("universe", start))
    singles = [((a.name,), AT.PACKAGES[i % 4]) for i, a in enumerate(AT.ATOMS)]
    singles += [((a.name,), p) for a in AT.ATOMS[:12] for p in AT.PACKAGES]
    for i in range(0, len(singles), 12):
        items.append(("atoms", singles[i:i + 12]))
    names = [a.name for a in AT.ATOMS]
    pairs = [((a, b), AT.PACKAGES[(i % 3) + 1]) for i, (a, b) in enumerate(AT.compatible_pairs(names))]
    if tier == "quick":
        risky = {"msg_typing_names", "msg_builtin_names", "field_builtins", "field_keywords", "nested_3",
                 "recursive_mutual", "wkt_time", "wkt_wrappers", "maps_mixed", "oneof_mixed", "optional_mixed",
                 "enum_prefixed", "comments", "service_streams", "field_named_like_type", "msg_datetime_names"}
        pairs = [p for p in pairs if p[0][0] in risky and p[0][1] in risky]
    for i in range(0, len(pairs), 20):
        items.append(("atoms", pairs[i:i + 20]))
    for d in sorted(os.listdir(os.path.join(REPO, "tests", "inputs"))):
        if os.path.isdir(os.path.join(REPO, "tests", "inputs", d)) and d not in CORPUS_XFAIL:
            items.append(("corpus", d))
    items.append(("bundled", None))
    items.append(("multi", None))
    items.append(("partial", None))
    return items


def _shard(shard: int, nshards: int, tier: str) -> Tally:
    t = Tally()
    items = _W["items"]
    for i in range(shard, len(items), nshards):
        kind, arg = items[i]
        try:
            if kind == "universe":
                vs = run_universe_chunk(tier, arg, t)
            elif kind == "atoms":
                vs = run_atoms(arg, t)
            elif kind == "corpus":
                vs = run_corpus(arg, t)
            elif kind == "multi":
                vs = run_multi(t)
            elif kind == "partial":
                vs = run_partial(t)
            else:
                vs = check_bundled(t)
        except HarnessError:
            raise
        for v in vs:
            t.violate(v, cap_per_sig=1)
        if kind == "atoms" and i % 7 == 0:
            t.sample({"schema_atoms": list(arg[0][0]), "package": arg[0][1]})
        if kind == "corpus" and i % 11 == 0:
            t.sample({"tests_inputs_dir": arg})
    return t


def filter_explained(vs: List[Violation]) -> List[Violation]:
    """Drop pair failures whose oracle already fails for one of the two atoms alone."""
    single_fail = set()
    for v in vs:
        if v.case.get("kind") == "atoms" and len(v.case["atoms"]) == 1:
            single_fail.add((v.signature[1], v.case["atoms"][0]))
    out = []
    for v in vs:
        if v.case.get("kind") == "atoms" and len(v.case["atoms"]) == 2:
            if any((v.signature[1], a) in single_fail for a in v.case["atoms"]):
                continue
        out.append(v)
    return out


def run(ctx: Ctx) -> None:
    get_universe(ctx.tier)
    _W["items"] = plan(ctx.tier)
    t = merge_tallies(pmap_shards(_shard, min(64, len(_W["items"])), ctx.tier))
    vs = filter_explained([Violation.from_json(vj) for vj in t.violations])
    for v in vs:
        ctx.add(v)
    ctx.coverage.update(
        programs=t.n.get("programs", 0),
        disagreements_checked=t.n.get("compared", 0),
        protoc_runs=t.n.get("protoc_runs", 0),
        universe_message_types=len(get_universe(ctx.tier).schema.msgs),
        structure_atoms=len(AT.ATOMS),
        bundled_classes_compared=t.n.get("bundled_classes", 0),
        corpus_rejected_by_protoc=t.n.get("corpus_rejected_by_protoc", 0),
        exhaustive=True,
        samples=t.samples or [{"schema_atoms": ["plain"]}],
        rule="programs = .proto schemas compiled by protoc + the plugin from the working tree and "
             "imported; disagreements_checked = individual comparisons between generated classes "
             "(field number, proto type, cardinality, map types, oneof group, wrapper/time mapping, "
             "resolved reference, enum numbers) and the descriptor protoc emitted",
    )
    ctx.assumptions += [
        "proto3 only; proto2 / editions / extensions / custom options are outside the property",
        "ruff is replaced by an identity shim (formatting and import sorting only)",
        "generated class names are located with the implementation's own pythonize_class_name",
    ]


def replay(case: dict) -> List[Violation]:
    t = Tally()
    if case["kind"] == "universe":
        get_universe(case["tier"])
        return run_universe_chunk(case["tier"], case["start"], t)
    if case["kind"] == "atoms":
        return run_atoms([(tuple(case["atoms"]), case["package"])], t)
    if case["kind"] == "corpus":
        return run_corpus(case["dir"], t)
    if case["kind"] == "multi":
        return run_multi(t)
    if case["kind"] == "partial":
        return [v for v in run_partial(t) if v.case.get("request") == case.get("request")]
    return check_bundled(t)
