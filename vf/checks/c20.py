"""C20 enums are open, canonical and immutable.

Part A: EVERY enum definition with 1..3 members over numbers
{0, 1, -1, 2, 2**31-1, -2**31} (aliases included: 258 definitions) against a dict model.
Part B: every int32-alphabet number (defined and undefined) in singular, optional,
oneof, repeated and map-value positions through binary and JSON round trips.
"""
from __future__ import annotations

import copy
import itertools
import pickle
import sys
import types
from typing import Any, Dict, List, Tuple

import betterproto

from vf.core import absval as av
from vf.core.runner import Ctx, Tally, Violation, merge_tallies, pmap_shards
from vf.core.universe import get_universe

LEVEL = "model_checking"
NUMBERS = [0, 1, -1, 2, 2**31 - 1, -(2**31)]
NAMES = ["A", "B", "C"]
# member names of other shapes: a single leading underscore (what the plugin produces for VERSION_1 ->
# _1), and names that carry the class name as a prefix next to the bare name (class Kind: KIND_A, A)
NAME_SETS = [NAMES, ["_1", "_x2", "a_"], ["KIND_A", "A", "KIND_KIND_B"]]
PROBE = [0, 1, -1, 2, 3, 7, -5, 2**31 - 1, -(2**31), 2**31 - 2]

_MOD = types.ModuleType("vf_c20_enums")
sys.modules["vf_c20_enums"] = _MOD


def definitions():
    for names in NAME_SETS:
        for n in (1, 2, 3):
            for nums in itertools.product(NUMBERS, repeat=n):
                yield tuple(zip(names[:n], nums))


def make_enum(idx: int, members):
    # (the class is called Kind when the member names carry the KIND_ prefix; it is re-registered in
    # the module for every definition, so pickling finds the current one)
    name = "Kind" if any(n.startswith("KIND_") for n, _ in members) else f"E{idx}"
    src = f"import betterproto\nclass {name}(betterproto.Enum):\n" + "".join(f"    {n} = {v}\n" for n, v in members)
    exec(compile(src, f"<{name}>", "exec"), _MOD.__dict__)
    return getattr(_MOD, name)


def nclass(n: int) -> str:
    return "zero" if n == 0 else ("neg" if n < 0 else "pos")


def check_definition(idx: int, members, t: Tally) -> List[Violation]:
    """Guarded: an exception escaping the examination comes from the enum under test."""
    try:
        return _check_definition(idx, members, t)
    except Exception as e:
        return [Violation(["enum", "definition-unusable", type(e).__name__],
                          f"enum {dict(members)!r}: {type(e).__name__}: {e}"[:400],
                          {"part": "A", "members": [list(m) for m in members]})]


def _check_definition(idx: int, members, t: Tally) -> List[Violation]:
    out: List[Violation] = []
    shape = f"n{len(members)}" + ("-alias" if len({v for _, v in members}) < len(members) else "")
    if members[0][0].startswith("_"):
        shape += "-underscore-names"
    elif members[0][0].startswith("KIND_"):
        shape += "-class-prefixed-names"

    def bad(oracle: str, detail: str, extra: str = ""):
        out.append(Violation(["enum", oracle, shape] + ([extra] if extra else []),
                             f"enum {dict(members)!r}: {detail}"[:400], {"part": "A", "members": [list(m) for m in members]}))

    try:
        E = make_enum(idx, members)
    except Exception as e:
        bad("define", f"class creation raised {type(e).__name__}: {e}")
        return out
    canon_name: Dict[int, str] = {}
    for n, v in members:
        canon_name.setdefault(v, n)
    t.inc("edges")
    for v, cn in canon_name.items():
        try:
            m = E(v)
        except Exception as e:
            bad("by-number", f"E({v}) raised {type(e).__name__}", nclass(v))
            continue
        t.inc("edges")
        if m.name != cn or m.value != v or int(m) != v:
            bad("by-number", f"E({v}) has name={m.name!r} value={m.value!r}; declared {cn}={v}", nclass(v))
        if E(v) is not m or E.try_value(v) is not m:
            bad("identity", f"E({v}) is not a single canonical object", nclass(v))
        if not isinstance(m, E) or m != v:
            bad("int-like", f"E({v}) != {v} or wrong type", nclass(v))
        if copy.copy(m) is not m or copy.deepcopy(m) is not m:
            bad("copy-identity", f"copy/deepcopy of {cn} is a different object", nclass(v))
        for proto in range(0, pickle.HIGHEST_PROTOCOL + 1):
            try:
                p = pickle.loads(pickle.dumps(m, protocol=proto))
                t.inc("edges")
                if p.name != m.name or p.value != m.value or int(p) != v or type(p) is not E:
                    bad("pickle", f"pickle (protocol {proto}) of {cn}={v} gives {p.name!r}={p.value!r}", nclass(v))
            except Exception as e:
                bad("pickle", f"pickle (protocol {proto}) of {cn} raised {type(e).__name__}: {e}", nclass(v))
        if hash(m) != hash(v) or m != E(v) or not (m == v):
            bad("int-like", f"hash/== of {cn} inconsistent with {v}", nclass(v))
        if m not in E:
            bad("contains", f"{cn} not in E")
        for attr, val in (("name", "X"), ("value", 99), ("other", 1)):
            try:
                setattr(m, attr, val)
                bad("member-mutable", f"setattr(member, {attr!r}) succeeded")
            except AttributeError:
                pass
            except Exception as e:
                bad("member-mutable", f"setattr raised {type(e).__name__} not AttributeError")
        try:
            delattr(m, "name")
            bad("member-mutable", "delattr(member, 'name') succeeded")
        except AttributeError:
            pass
        if m.name != cn or m.value != v:
            bad("member-mutable", "member changed after mutation attempts")
    for n, v in members:
        for how, get in (("getitem", lambda: E[n]), ("from_string", lambda: E.from_string(n)),
                         ("attribute", lambda: getattr(E, n))):
            try:
                m = get()
            except Exception as e:
                bad("by-name", f"{how}({n}) raised {type(e).__name__}")
                continue
            t.inc("edges")
            try:
                if m is not E(v):
                    bad("by-name", f"{how}({n}) is not the canonical member for {v}")
                if m.value != v or m.name != canon_name[v]:
                    bad("by-name", f"{how}({n}) -> {m.name}={m.value}, declared number {v}")
            except Exception as e:
                bad("by-name", f"{how}({n}) gives {m!r}, unusable as a member: {type(e).__name__}: {e}")
    try:
        mem = E.__members__
        if list(mem.keys()) != [n for n, _ in members]:
            bad("members", f"__members__ keys {list(mem.keys())}")
        if any(mem[n] is not E(v) for n, v in members):
            bad("members", "__members__ values are not the canonical members")
        its = list(E)
        if {int(x) for x in its} != set(canon_name) or any(x is not E(int(x)) for x in its):
            bad("iteration", f"iteration yields {its!r}")
        if list(reversed(E)) != its[::-1] or any(x is not y for x, y in zip(reversed(E), its[::-1])):
            bad("iteration", f"reversed() yields {list(reversed(E))!r}, iteration {its!r}")
        if len(E) != len(members):
            bad("members", f"len(E) = {len(E)} for {len(members)} declared names")
        try:
            mem["Z"] = 1
            bad("class-mutable", "__members__ is writable")
        except TypeError:
            pass
    except Exception as e:
        bad("members", f"{type(e).__name__}: {e}")
    first = E(members[0][1])
    shown = (str(first), repr(first), hash(first), first == members[0][1])
    for attr, val in ((members[0][0], 5), ("NEW", 1), ("_value_map_", {}), ("_member_map_", {}),
                      ("__str__", lambda self: "hijacked"), ("__repr__", lambda self: "hijacked"),
                      ("__eq__", lambda self, o: False), ("__hash__", lambda self: 0),
                      ("__int__", lambda self: 0), ("__doc__", "changed"), ("__members__", {}),
                      ("__deepcopy__", lambda self, memo: 0), ("__reduce_ex__", lambda self, p: (int, (0,)))):
        try:
            setattr(E, attr, val)
            bad("class-mutable", f"setattr(E, {attr!r}) succeeded")
        except AttributeError:
            pass
        except Exception as e:
            bad("class-mutable", f"setattr(E) raised {type(e).__name__}")
    try:
        delattr(E, members[0][0])
        bad("class-mutable", "delattr(E, member) succeeded")
    except AttributeError:
        pass
    except Exception as e:
        bad("class-mutable", f"delattr(E) raised {type(e).__name__}")
    if E(members[0][1]).name != canon_name[members[0][1]]:
        bad("class-mutable", "definition changed after mutation attempts")
    try:
        if (str(first), repr(first), hash(first), first == members[0][1]) != shown:
            bad("class-mutable", "members print / hash / compare differently after mutation attempts on the class")
    except Exception as e:
        bad("class-mutable", f"member unusable after mutation attempts: {type(e).__name__}: {e}")
    for v in PROBE:
        if v in canon_name:
            continue
        t.inc("edges")
        try:
            E(v)
            bad("closed-call", f"E({v}) did not raise for an undefined number", nclass(v))
        except ValueError:
            pass
        except Exception as e:
            bad("closed-call", f"E({v}) raised {type(e).__name__}", nclass(v))
        try:
            m = E.try_value(v)
            if m != v or int(m) != v or m.value != v or m.name is not None or not isinstance(m, E):
                bad("open", f"try_value({v}) -> {m!r} name={m.name!r} value={m.value!r}", nclass(v))
            if m in E:
                bad("open", f"undefined {v} reported as contained in E", nclass(v))
            try:
                E(v)
                bad("closed-call", f"E({v}) stopped raising after try_value({v}) was used", nclass(v))
            except ValueError:
                pass
            if len(E) != len(members) or {int(x) for x in E} != set(canon_name):
                bad("class-mutable", f"try_value({v}) changed the enum class", nclass(v))
            if copy.deepcopy(m) != v or copy.copy(m) != v:
                bad("open", f"copy of undefined {v} changes the number", nclass(v))
            for proto in range(0, pickle.HIGHEST_PROTOCOL + 1):
                q = pickle.loads(pickle.dumps(m, protocol=proto))
                if q != v or q.name is not None or type(q) is not E:
                    bad("open", f"pickle (protocol {proto}) of undefined {v} gives {q!r}", nclass(v))
        except Exception as e:
            bad("open", f"try_value({v}) raised {type(e).__name__}: {e}", nclass(v))
        try:
            E.from_string("NOPE")
            bad("by-name", "from_string of an unknown name did not raise")
        except ValueError:
            pass
        except Exception as e:
            bad("by-name", f"from_string(unknown) raised {type(e).__name__}")
    try:
        if E.try_value().value != 0 or E.try_value() != 0:
            bad("default", "try_value() is not 0")
    except Exception as e:
        bad("default", f"try_value() raised {type(e).__name__}: {e}")
    return out


def _shard_defs(shard: int, nshards: int, extra) -> Tally:
    t = Tally()
    for idx, members in enumerate(definitions()):
        if idx % nshards != shard:
            continue
        t.inc("definitions")
        for v in check_definition(idx, members, t):
            t.violate(v, cap_per_sig=1)
        if idx % 97 == 0:
            t.sample({"enum_definition": dict(members)})
    return t


# ---------------------------------------------------------------------------
POSITIONS = ["single", "optional", "oneof", "repeated", "map"]
FIELD_NUMBERS = [0, 1, -1, 2**31 - 1, -(2**31), 7, -5, 2, 100]


def check_position(card: str, n: int, t: Tally) -> List[Violation]:
    u = get_universe("quick", pairs=False)
    name = f"T1_{card}_enum_Color"
    m = u.schema.msg(name)
    cls = getattr(u.bp, name)
    defined = n in u.schema.enum("Color").numbers
    out: List[Violation] = []
    if card == "repeated":
        # mixed lists too: a defined member next to an undefined number, in either order (to_dict
        # writes names for the former and numbers for the latter in ONE JSON list)
        nums = sorted(u.schema.enum("Color").numbers)
        others = [nums[0], nums[-1], 7, -5, 100]
        lists = [[n, n]] + [l for o in others if o != n for l in ([n, o], [o, n], [o, n, o])]
    else:
        lists = [None]
    for lst in lists:
        out.extend(_check_position_value(u, m, cls, name, card, n, defined, lst, t))
    return out


def _check_position_value(u, m, cls, name, card, n, defined, lst, t) -> List[Violation]:
    aval = {"f": lst if card == "repeated" else ({"k": n} if card == "map" else n)}
    out: List[Violation] = []

    def bad(oracle: str, detail: str):
        out.append(Violation(["enum-field", oracle, card, nclass(n) + ("" if defined else ":undefined")],
                             f"{name} number={n}: {detail}"[:400], {"part": "B", "card": card, "n": n}))

    exp = av.normalize(u.schema, m, aval)
    try:
        msg = av.make_bp(u.bp, u.schema, m, aval, "ctor")
        back = cls().parse(bytes(msg))
        t.inc("edges", 2)
        if not av.aval_eq(av.project_bp(u.schema, m, back), exp):
            bad("binary", f"binary round trip gives {av.project_bp(u.schema, m, back)!r}")
        elems = back.f if card == "repeated" else (list(back.f.values()) if card == "map" else [back.f])
        for x, want in zip(elems, lst if card == "repeated" else [n] * len(elems)):
            n_, defined_ = want, want in u.schema.enum("Color").numbers
            if not (x == n_) or int(x) != n_:
                bad("binary", f"decoded element {x!r} != {n_}")
            if card != "map" and not isinstance(x, u.bp.Color):
                bad("binary-type", f"decoded element is {type(x).__name__}, not Color")
            if card != "map" and defined_ and x is not u.bp.Color(n_):
                bad("binary-canonical", "decoded defined number is not the canonical member")
    except Exception as e:
        bad("binary", f"{type(e).__name__}: {e}")
    for casing in (betterproto.Casing.CAMEL, betterproto.Casing.SNAKE):
        try:
            d = msg.to_dict(casing=casing)
            import json
            txt = json.dumps(d)
            for src in (d, json.loads(txt)):
                b2 = cls().from_dict(src)
                t.inc("edges", 2)
                if not av.aval_eq(av.project_bp(u.schema, m, b2), exp):
                    bad("json", f"JSON round trip via {src!r} gives {av.project_bp(u.schema, m, b2)!r}")
                if bytes(b2) != bytes(msg):
                    bad("json", f"JSON round trip changes the encoding ({src!r})")
        except Exception as e:
            bad("json", f"{type(e).__name__}: {e}")
    return out


def _shard_pos(shard: int, nshards: int, extra) -> Tally:
    t = Tally()
    i = 0
    for card in POSITIONS:
        for n in FIELD_NUMBERS:
            i += 1
            if i % nshards != shard:
                continue
            t.inc("positions")
            for v in check_position(card, n, t):
                t.violate(v, cap_per_sig=1)
    if shard == 0:
        t.sample({"position": "repeated", "number": -5, "codecs": ["binary", "json camel", "json snake"]})
    return t


GEN_PROTO = ('syntax = "proto3";\npackage vfc20;\n'
             'enum Colour { COLOUR_ZERO = 0; COLOUR_ONE = 1; COLOUR_NEG = -1; COLOUR_BIG = 2147483647; }\n'
             'message Pixel { Colour single = 1; optional Colour opt = 2; repeated Colour many = 3; map<string, Colour> by = 4;\n'
             '  oneof pick { Colour chosen = 5; int32 other = 6; } }\n')
GEN_NUMBERS = [0, 1, -1, 2147483647, 7, -5, -2147483648, 100]


def check_generated(t: Tally) -> List[Violation]:
    """The same openness through classes the PLUGIN generates, with and without pydantic_dataclasses:
    a number the enum does not define is accepted wherever a member is (constructor, from_dict,
    decoding, copies) in every field position."""
    from vf.core import plugin
    import copy as _copy
    out: List[Violation] = []
    for vname, opts in (("std", []), ("pydantic", ["pydantic_dataclasses"]), ("310+pydantic", ["typing.310", "pydantic_dataclasses"])):
        res = plugin.compile_protos({"vfc20.proto": GEN_PROTO}, opts=opts, tag="c20", want_descriptor=False)
        try:
            if res.rc != 0:
                out.append(Violation(["enum-generated", "plugin-failed", vname], res.stderr[-300:], {"part": "C", "variant": vname}))
                continue
            mod = res.module("vfc20")
            E, Pixel = mod.Colour, mod.Pixel
            for n in GEN_NUMBERS:
                defined = n in (0, 1, -1, 2147483647)
                for pos in ("single", "opt", "many", "by", "chosen"):
                    t.inc("generated_cases")
                    val = E.try_value(n)
                    kw = {pos: [val, val] if pos == "many" else {"k": val} if pos == "by" else val}
                    label = ["enum-generated", None, vname, pos, "defined" if defined else "undefined"]
                    try:
                        m = Pixel(**kw)
                        back = Pixel().parse(bytes(m))
                        js = Pixel().from_dict(m.to_dict())
                        dc = _copy.deepcopy(back)
                        get = lambda x: (getattr(x, pos)[0] if pos == "many" else getattr(x, pos)["k"] if pos == "by" else getattr(x, pos))
                        skip_single_zero = pos == "single" and n == 0
                        for how, x in (("ctor", m), ("parse", back), ("json", js), ("deepcopy", dc)):
                            got = None if (skip_single_zero and how != "ctor" and False) else get(x)
                            if int(got) != n:
                                label[1] = "number-not-kept"
                                out.append(Violation(label, f"{vname}: Pixel.{pos} = {n} ({how}) reads back {got!r}", {"part": "C", "variant": vname, "n": n, "pos": pos}))
                                break
                    except Exception as e:
                        label[1] = "rejected"
                        out.append(Violation(label, f"{vname}: enum number {n} in Pixel.{pos}: {type(e).__name__}: {e}"[:300],
                                             {"part": "C", "variant": vname, "n": n, "pos": pos}))
        finally:
            res.cleanup()
    seen, uniq = set(), []
    for v in out:
        k = tuple(v.signature)
        if k not in seen:
            seen.add(k)
            uniq.append(v)
    return uniq


def run(ctx: Ctx) -> None:
    get_universe("quick", pairs=False)
    tg = Tally()
    for v in check_generated(tg):
        ctx.add(v)
    t1 = merge_tallies(pmap_shards(_shard_defs, 16, None))
    t2 = merge_tallies(pmap_shards(_shard_pos, 15, None))
    for t in (t1, t2):
        for vj in t.violations:
            ctx.add(Violation.from_json(vj))
    states = t1.n.get("definitions", 0) + t2.n.get("positions", 0)
    ctx.coverage.update(
        states=states,
        transitions=t1.n.get("edges", 0) + t2.n.get("edges", 0),
        traces_validated_against_impl=states,
        exhaustive=True,
        enum_definitions=t1.n.get("definitions", 0),
        field_position_cases=t2.n.get("positions", 0),
        generated_enum_cases=tg.n.get("generated_cases", 0),
        samples=t1.samples[:3] + t2.samples,
        rule="state = enum definition (all 1..3-member definitions over 6 numbers, aliases included) "
             "or (field position, number); edges = lookups, copies, pickles, mutation attempts, codec "
             "round trips on the real classes, compared with a dict model",
    )
    ctx.assumptions += ["pickling needs the class importable by name: enums live in a registered synthetic module"]


def replay(case: dict) -> List[Violation]:
    t = Tally()
    if case["part"] == "C":
        return [v for v in check_generated(t) if v.case == case]
    if case["part"] == "A":
        members = tuple((n, v) for n, v in case["members"])
        return check_definition(900000 + abs(hash(str(members))) % 1000, members, t)
    return check_position(case["card"], case["n"], t)
