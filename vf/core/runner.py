"""Check driver: context, known-findings matcher, evidence writer, sharded map.

Exit codes: 0 held (maybe KNOWN-FINDING lines), 1 VIOLATION, 2 harness error.
"""
from __future__ import annotations

import hashlib
import json
import multiprocessing as mp
import os
import subprocess
import sys
import time
import traceback
from typing import Any, Callable, Dict, Iterable, List, Optional, Sequence, Tuple

VERIF = os.path.dirname(os.path.dirname(os.path.dirname(os.path.abspath(__file__))))
REPO = os.environ.get("VERIF_REPO", "/repo")
EVIDENCE_DIR = os.path.join(VERIF, "evidence")
REPLAY_DIR = os.path.join(VERIF, "replays")
FINDINGS_FILE = os.environ.get("VERIF_FINDINGS") or os.path.join(VERIF, "known_findings.json")
EVIDENCE_SCHEMA = "/root/.vp/EVIDENCE.schema.json"
NCPU = min(16, os.cpu_count() or 1)


class HarnessError(Exception):
    """The check itself is broken (model/reference disagreement, replay divergence)."""


class Violation:
    __slots__ = ("signature", "what", "case")

    def __init__(self, signature: Sequence[str], what: str, case: Any):
        self.signature = [str(s) for s in signature]
        self.what = what
        self.case = case

    def to_json(self):
        return {"signature": self.signature, "what": self.what, "case": self.case}

    @staticmethod
    def from_json(d):
        return Violation(d["signature"], d["what"], d["case"])


def load_findings(prop: str) -> List[dict]:
    if not os.path.exists(FINDINGS_FILE):
        return []
    with open(FINDINGS_FILE) as fh:
        data = json.load(fh)
    out = []
    for f in data.get("findings", []):
        props = f.get("property")
        if props == prop or (isinstance(props, list) and prop in props):
            out.append(f)
    return out


def sig_matches(entry_sig: List[str], sig: List[str]) -> bool:
    """Component-wise match; entry components may use shell wildcards ('*', 'key:int32:*')."""
    if len(entry_sig) != len(sig):
        return False
    import fnmatch
    return all(e == s or fnmatch.fnmatchcase(s, e) for e, s in zip(entry_sig, sig))


def _entry_sigs(f: dict) -> List[List[str]]:
    out = []
    if "signature" in f:
        out.append(f["signature"])
    out.extend(f.get("signatures", []))
    return out


class Ctx:
    def __init__(self, prop: str, tier: str, seed: int, level: str):
        self.prop = prop
        self.tier = tier
        self.seed = seed
        self.level = level
        self.t0 = time.time()
        self.violations: List[Violation] = []
        self.known_hits: Dict[str, int] = {}
        self.coverage: Dict[str, Any] = {}
        self.assumptions: List[str] = []
        self.findings = load_findings(prop)
        self.notes: List[str] = []
        self.replay_fn: Optional[Callable[[Any], List[Violation]]] = None
        self._seen_sigs: Dict[str, Violation] = {}

    @property
    def quick(self) -> bool:
        return self.tier == "quick"

    # -- violations -------------------------------------------------------
    def add(self, v: Violation) -> None:
        for f in self.findings:
            if f.get("status") == "open" and any(
                sig_matches(es, v.signature) for es in _entry_sigs(f)
            ):
                self.known_hits[f["id"]] = self.known_hits.get(f["id"], 0) + 1
                return
        key = json.dumps(v.signature)
        if key not in self._seen_sigs:
            self._seen_sigs[key] = v
        self.violations.append(v)

    def is_known(self, signature: List[str]) -> bool:
        """Is this signature covered by an OPEN known finding of this property?"""
        return any(f.get("status") == "open" and any(sig_matches(es, signature) for es in _entry_sigs(f))
                   for f in self.findings)

    def add_all(self, vs: Iterable[Violation]) -> None:
        for v in vs:
            self.add(v)

    # -- finishing --------------------------------------------------------
    def finish(self) -> int:
        wall = time.time() - self.t0
        for f in self.findings:
            if f.get("status") == "open" and self.known_hits.get(f["id"]):
                print(
                    f"KNOWN-FINDING: property={self.prop} {f['id']}: {f['what']} "
                    f"(hit {self.known_hits[f['id']]}x this run)"
                )
        rc = 0
        replay_paths = []
        if self.violations:
            rc = 1
            os.makedirs(REPLAY_DIR, exist_ok=True)
            context_dependent = set()
            for key, v in self._seen_sigs.items():
                # determinism: re-evaluate the witness twice
                if self.replay_fn is not None:
                    try:
                        r1 = [x.signature for x in self.replay_fn(v.case)]
                        r2 = [x.signature for x in self.replay_fn(v.case)]
                    except Exception as e:  # pragma: no cover
                        raise HarnessError(f"replay crashed: {e!r}")
                    if r1 != r2:
                        raise HarnessError(
                            f"replay is not deterministic for {v.signature}: {r1} vs {r2}"
                        )
                    if v.signature not in r1:
                        # Deterministic in the run (fixed enumeration order) but not reproducible from
                        # the single case: the failure needs state left behind by EARLIER cases in the
                        # same process (a class-level / module-level memo, a shared default object).
                        # That is itself a breach of the property, not a harness fault.
                        context_dependent.add(key)
                h = hashlib.sha1(
                    json.dumps([v.signature, v.case], sort_keys=True, default=str).encode()
                ).hexdigest()[:12]
                path = os.path.join(REPLAY_DIR, f"{self.prop}-{h}.json")
                with open(path, "w") as fh:
                    json.dump(
                        {
                            "property": self.prop,
                            "signature": v.signature,
                            "what": v.what,
                            "case": v.case,
                            "context_dependent": key in context_dependent,
                            "replay_cmd": f"./check {self.prop} --replay {path}",
                        },
                        fh, indent=1, default=str,
                    )
                replay_paths.append(path)
                print(f"VIOLATION property={self.prop} replay={path}")
                print(f"  signature={v.signature}")
                print(f"  what={v.what}")
                if key in context_dependent:
                    print("  note=witness fails only after the cases enumerated before it in the same "
                          "process (state shared between instances / classes); re-run the check to reproduce")
        cov = dict(self.coverage)
        cov.setdefault("samples", [])
        cov["samples"] = cov["samples"][:8]
        if self.notes:
            cov["notes"] = self.notes[:20]
        cov["known_finding_hits"] = dict(sorted(self.known_hits.items()))
        ev = {
            "property_id": self.prop,
            "tier": self.tier,
            "seed": self.seed,
            "level": self.level,
            "coverage": cov,
            "assumptions": self.assumptions,
            "wall_s": round(wall, 3),
            "violations": len(self._seen_sigs),
        }
        os.makedirs(EVIDENCE_DIR, exist_ok=True)
        path = os.path.join(EVIDENCE_DIR, f"{self.prop}.json")
        with open(path, "w") as fh:
            json.dump(ev, fh, indent=1, default=str)
        validate_evidence(path)
        summary = {k: v for k, v in cov.items() if isinstance(v, (int, bool))}
        print(f"[{self.prop}] tier={self.tier} wall={wall:.1f}s {summary} rc={rc}")
        return rc


def validate_evidence(path: str) -> None:
    code = (
        "import json,sys,jsonschema;"
        f"s=json.load(open({EVIDENCE_SCHEMA!r}));d=json.load(open({path!r}));"
        "jsonschema.validate(d,s)"
    )
    try:
        r = subprocess.run(
            ["python3-vt", "-c", code], capture_output=True, text=True, timeout=60
        )
    except (FileNotFoundError, subprocess.TimeoutExpired):
        return _validate_basic(path)
    if r.returncode != 0:
        if "No module named" in r.stderr:
            return _validate_basic(path)
        raise HarnessError(f"evidence does not validate: {r.stderr[-800:]}")


def _validate_basic(path: str) -> None:
    d = json.load(open(path))
    for k in ("property_id", "tier", "seed", "level", "coverage", "wall_s"):
        if k not in d:
            raise HarnessError(f"evidence lacks {k}")


# ---------------------------------------------------------------------------
# sharded evaluation

_WORK: Dict[str, Any] = {}


def _run_shard(args):
    fn_name, shard, nshards, extra = args
    fn = _WORK[fn_name]
    try:
        return ("ok", shard, fn(shard, nshards, extra))
    except Exception:
        return ("err", shard, traceback.format_exc())


def pmap_shards(fn: Callable[[int, int, Any], Any], nshards: int, extra: Any = None,
                workers: Optional[int] = None) -> List[Any]:
    """Run fn(shard, nshards, extra) for every shard in forked workers.

    ``fn`` must be a module-level callable; state built before the call is
    inherited through fork.  Results are returned in shard order.
    """
    name = f"{fn.__module__}.{fn.__qualname__}"
    _WORK[name] = fn
    workers = workers or NCPU
    if workers <= 1 or nshards <= 1:
        res = [_run_shard((name, s, nshards, extra)) for s in range(nshards)]
    else:
        ctx = mp.get_context("fork")
        with ctx.Pool(min(workers, nshards)) as pool:
            res = pool.map(_run_shard, [(name, s, nshards, extra) for s in range(nshards)],
                           chunksize=1)
    out = []
    for status, shard, payload in sorted(res, key=lambda r: r[1]):
        if status == "err":
            raise HarnessError(f"worker shard {shard} crashed:\n{payload}")
        out.append(payload)
    return out


def rotate(items: List[Any], seed: int) -> List[Any]:
    """Seed only rotates enumeration order; the set of cases never changes."""
    if not items:
        return items
    k = seed % len(items)
    return items[k:] + items[:k]


class Tally:
    """Mergeable counters + bounded sample list + violations for worker results."""

    def __init__(self):
        self.n: Dict[str, int] = {}
        self.sets: Dict[str, set] = {}
        self.samples: List[Any] = []
        self.violations: List[dict] = []

    def inc(self, key: str, by: int = 1) -> None:
        self.n[key] = self.n.get(key, 0) + by

    def mark(self, key: str, item: Any) -> None:
        self.sets.setdefault(key, set()).add(item)

    def sample(self, item: Any, cap: int = 4) -> None:
        if len(self.samples) < cap:
            self.samples.append(item)

    def violate(self, v: Violation, cap_per_sig: int = 3) -> None:
        k = json.dumps(v.signature)
        c = sum(1 for x in self.violations if json.dumps(x["signature"]) == k)
        self.inc("violations_raw")
        if c < cap_per_sig:
            self.violations.append(v.to_json())

    def merge(self, other: "Tally") -> None:
        for k, v in other.n.items():
            self.n[k] = self.n.get(k, 0) + v
        for k, s in other.sets.items():
            self.sets.setdefault(k, set()).update(s)
        for s in other.samples:
            if len(self.samples) < 8:
                self.samples.append(s)
        self.violations.extend(other.violations)


def merge_tallies(ts: Iterable[Tally]) -> Tally:
    out = Tally()
    for t in ts:
        out.merge(t)
    return out
