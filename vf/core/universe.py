"""The small-scope universe shared by the codec checks (C01, C02, C04-C06, C09 ...).

T(1,1): every (kind x cardinality) unit alone in a message, full value alphabets.
T(2,2): every unordered pair of units in one message, reduced alphabets.
Rec   : a recursive message with every presence pattern to depth 3.
A case is (message type, abstract value); construction routes are chosen by checks.
"""
from __future__ import annotations

import itertools
from dataclasses import dataclass
from typing import Any, Dict, Iterator, List, Optional, Tuple

from . import absval as av
from .schema import (
    MAP_KEY_KINDS, SCALARS, WRAPPERS, EnumDef, Field, Msg, Schema, build_bp, build_ref,
)

COLOR = EnumDef("Color", (("ZERO", 0), ("ONE", 1), ("NEG", -1),
                          ("BIG", 2**31 - 1), ("MIN", -(2**31))))
SHADE = EnumDef("Shade", (("SHADE_ZERO", 0), ("SHADE_ONE", 1), ("SHADE_NEG", -3), ("SHADE_TWELVE", 12)))
LIB_MSGS = (
    Msg("Empty", ()),
    Msg("Sub", (Field("a", 1, "int32"), Field("s", 2, "string"))),
    Msg("Rec", (
        Field("child", 1, "msg:Rec"),
        Field("v", 2, "int32"),
        Field("kids", 3, "msg:Rec", "repeated"),
        Field("m", 4, "msg:Rec", "map", key="string"),
    )),
)

ALL_KINDS = (
    SCALARS + ["enum:Color", "enum:Shade", "msg:Sub", "msg:Empty", "timestamp", "duration"]
    + [f"wrap:{k}" for k in WRAPPERS]
)
QUICK_PAIR_KINDS = [
    "int32", "sint64", "uint64", "double", "bool", "string", "bytes",
    "enum:Color", "msg:Sub", "timestamp", "wrap:int32", "fixed32",
]
RAW_NAMED_FIELDS = ["fooBar", "shard__id", "userName", "value__x_y"]
FIELD_NUMBERS = [1, 15, 16, 2047, 2048, 536870911]
NAMED_FIELDS = ["foo_bar", "address_line_1", "x_y_z", "ipv4_address", "a1b2", "field_1_name", "is_3d",
                "k8s_pod", "sha256_hash", "a_b_c_d", "v2", "i_18_n", "utf8_text", "vlan_id_1",
                "fooBar", "HTTPStatus", "userID", "from", "class", "list",
                "shard__id", "value__x_y"]   # names that snake-casing does not reproduce


@dataclass(frozen=True)
class Unit:
    kind: str
    card: str
    key: Optional[str] = None

    @property
    def label(self) -> str:
        k = self.kind.replace(":", "_")
        return f"{self.card}_{k}" + (f"_k{self.key}" if self.key and self.key != "string" else "")


def all_units(kinds=ALL_KINDS, key_kinds=True) -> List[Unit]:
    us: List[Unit] = []
    for k in kinds:
        us.append(Unit(k, "single"))
    for k in kinds:
        if not k.startswith("wrap:"):
            us.append(Unit(k, "optional"))
    for k in kinds:
        us.append(Unit(k, "oneof"))
    for k in kinds:
        us.append(Unit(k, "repeated"))
    for k in kinds:
        us.append(Unit(k, "map", "string"))
    if key_kinds:
        for kk in MAP_KEY_KINDS:
            if kk != "string":
                us.append(Unit("int32", "map", kk))
    return us


def unit_fields(u: Unit, name: str, number: int, group: str, alt_number: int) -> List[Field]:
    if u.card == "oneof":
        return [
            Field(name, number, u.kind, "oneof", group=group),
            Field(name + "_alt", alt_number, "int32", "oneof", group=group),
        ]
    if u.card == "map":
        return [Field(name, number, u.kind, "map", key=u.key)]
    return [Field(name, number, u.kind, u.card)]


def unit_values(schema: Schema, u: Unit, name: str, level: str) -> List[Dict[str, Any]]:
    """All partial abstract values of one unit (as dicts to merge into the message)."""
    alpha = av.alphabet(schema, u.kind, level)
    red = av.alphabet(schema, u.kind, "reduced")
    if u.card == "map" and u.kind.startswith("wrap:"):
        # betterproto encodes a wrapper-typed map value v as bytes(v): for an int
        # that allocates v zero bytes.  Keep ints small so the (known-defective)
        # path cannot exhaust memory; the defect itself is still observed.
        small = lambda v: isinstance(v, bool) or not isinstance(v, int) or abs(v) <= 300
        alpha = [v for v in alpha if small(v)]
        red = [v for v in red if small(v)]
    out: List[Dict[str, Any]] = [{}]
    if u.card in ("single", "optional"):
        out += [{name: v} for v in alpha]
    elif u.card == "oneof":
        out += [{name: v} for v in alpha]
        out += [{name + "_alt": 0}]
        if level == "full":
            out += [{name + "_alt": 5}]
    elif u.card == "repeated":
        out.append({name: []})
        out += [{name: [v]} for v in alpha]
        if level == "full":
            out += [{name: [a, b]} for a in red for b in red]
            out.append({name: [red[-1], red[0], red[-1]]})
            # sizes beyond the one-byte and two-byte length prefixes: 130 elements, and a packed
            # payload / element count above 16 383
            nd = red[min(1, len(red) - 1)]
            out.append({name: [nd] * 130})
            if av.base_kind(u.kind) not in ("msg", "wrap", "timestamp", "duration"):
                out.append({name: [nd] * 17000})
        else:
            out.append({name: [red[-1], red[0]]})
    elif u.card == "map":
        keys = av.key_alphabet(u.key)
        out.append({name: {}})
        if u.key == "string":
            out += [{name: {"k": v}} for v in alpha]
        out += [{name: {k: red[min(1, len(red) - 1)]}} for k in keys]
        if level == "full":
            out.append({name: {keys[0]: red[0], keys[-1]: red[-1]}})
            out.append({name: {keys[-1]: red[-1], keys[1]: red[0], keys[0]: red[min(1, len(red) - 1)]}})
            if u.key != "bool":
                many = [f"k{i:03d}" for i in range(130)] if u.key == "string" else list(range(130))
                out.append({name: {k: red[min(1, len(red) - 1)] for k in many}})
        else:
            out.append({name: {keys[0]: red[0], keys[-1]: red[-1]}})
    return out


class _View:
    """A universe seen through another set of message classes (same schema, same values)."""

    def __init__(self, u, bp):
        self.__dict__.update(u.__dict__)
        self.bp = bp


@dataclass
class TypeCase:
    msg: Msg
    values: List[Dict[str, Any]]
    tag: str  # 'T1' | 'T2' | 'REC'


class Universe:
    def __init__(self, tier: str, pairs: bool = True, pair_kinds=None):
        self.tier = tier
        msgs: List[Msg] = list(LIB_MSGS)
        self._plans: List[Tuple[str, Msg, Any]] = []
        units = all_units()
        for i, u in enumerate(units):
            num = FIELD_NUMBERS[i % len(FIELD_NUMBERS)]
            alt = FIELD_NUMBERS[(i + 1) % len(FIELD_NUMBERS)]
            m = Msg(f"T1_{u.label}", tuple(unit_fields(u, "f", num, "grp", alt)))
            msgs.append(m)
            self._plans.append(("T1", m, (u,)))
        if pairs:
            kinds = pair_kinds or (QUICK_PAIR_KINDS if tier == "quick" else ALL_KINDS)
            punits = all_units(kinds, key_kinds=False)
            idx = 0
            for a, b in itertools.combinations_with_replacement(punits, 2):
                idx += 1
                n1 = FIELD_NUMBERS[idx % 3]
                n2 = FIELD_NUMBERS[3 + idx % 3]
                fs = unit_fields(a, "f", n1, "ga", n1 + 1) + unit_fields(b, "g", n2, "gb", n2 - 2)
                m = Msg(f"T2_{a.label}__{b.label}", tuple(fs))
                msgs.append(m)
                self._plans.append(("T2", m, (a, b)))
                if a.card == "oneof" and b.card == "oneof":
                    # both members in ONE group
                    fs2 = [
                        Field("f", n1, a.kind, "oneof", group="g1"),
                        Field("g", n2, b.kind, "oneof", group="g1"),
                    ]
                    m2 = Msg(f"T2S_{a.label}__{b.label}", tuple(fs2))
                    msgs.append(m2)
                    self._plans.append(("T2S", m2, (a, b)))
        # named-field family: snake_case names whose camelCase key does not trivially invert
        from betterproto.compile.naming import pythonize_field_name
        for ni, nm in enumerate(NAMED_FIELDS):
            # Python field named as the plugin names it; proto / reference side keeps the proto name
            m = Msg(f"TN{ni}", (Field(pythonize_field_name(nm), 3, "int32", proto_name=nm), Field("other", 4, "string")))
            msgs.append(m)
            self._plans.append(("TN", m, nm))
        # ... and hand-written classes that keep the .proto spelling as the PYTHON attribute name
        # (names that snake-casing would alter)
        for ni, nm in enumerate(RAW_NAMED_FIELDS):
            m = Msg(f"TNR{ni}", (Field(nm, 3, "int32", proto_name=nm), Field("other", 4, "string")))
            msgs.append(m)
            self._plans.append(("TN", m, nm))
        # kitchen sink: one field of EVERY unit in one message (declaration order != number order)
        ks_fields = []
        for i, u in enumerate(units):
            if u.card == "map" and u.kind.startswith("wrap:"):
                continue  # known-broken corner, covered on its own
            num = 3 * (len(units) - i) + 1
            ks_fields += unit_fields(u, f"k{i}", num, f"kg{i}", num + 1)
        ks = Msg("KS", tuple(ks_fields))
        msgs.append(ks)
        self._plans.append(("KS", ks, [u for u in units if not (u.card == "map" and u.kind.startswith("wrap:"))]))
        self.schema = Schema("vfu", (COLOR, SHADE), tuple(msgs))
        self.bp = build_bp(self.schema, "vf_universe_" + tier)
        self._bp604 = None
        self.ref = build_ref(self.schema)
        self.types: List[TypeCase] = []
        for tag, m, us in self._plans:
            self.types.append(TypeCase(m, self._values(tag, m, us), tag))
        rec = self.schema.msg("Rec")
        self.types.append(TypeCase(rec, list(av.REC_ALPHA) + self._rec_patterns(), "REC"))

    def _values(self, tag, m: Msg, us) -> List[Dict[str, Any]]:
        if tag == "T1":
            return unit_values(self.schema, us[0], "f", "full")
        if tag == "T2":
            va = unit_values(self.schema, us[0], "f", "reduced")
            vb = unit_values(self.schema, us[1], "g", "reduced")
            return [{**x, **y} for x in va for y in vb]
        if tag == "TN":
            fn = m.fields[0].name
            return [{}, {fn: 7}, {fn: -1, "other": "x"}, {"other": ""}]
        if tag == "KS":
            vals: List[Dict[str, Any]] = [{}]
            singles = []
            i = -1
            for u in all_units():
                i += 1
                if u.card == "map" and u.kind.startswith("wrap:"):
                    continue
                uv = [v for v in unit_values(self.schema, u, f"k{i}", "reduced") if v]
                if uv:
                    singles.append(uv)
                    vals.append(uv[min(1, len(uv) - 1)])
            everything: Dict[str, Any] = {}
            defaults: Dict[str, Any] = {}
            for uv in singles:
                everything.update(uv[-1])
                defaults.update(uv[0])
            vals += [everything, defaults]
            half: Dict[str, Any] = {}
            for uv in singles[::2]:
                half.update(uv[min(1, len(uv) - 1)])
            vals.append(half)
            return vals
        # T2S: same group: none | f=v | g=v
        out: List[Dict[str, Any]] = [{}]
        out += [{"f": v} for v in av.alphabet(self.schema, us[0].kind, "reduced")]
        out += [{"g": v} for v in av.alphabet(self.schema, us[1].kind, "reduced")]
        return out

    def _rec_patterns(self) -> List[Dict[str, Any]]:
        """Every presence pattern of Rec to depth 3 over {child, v, kids, m}."""
        def gen(depth: int) -> List[Dict[str, Any]]:
            if depth == 0:
                return [{}, {"v": 1}]
            inner = gen(depth - 1)
            pick = [inner[0], inner[-1]] if depth > 1 else inner
            out = [{}, {"v": 1}]
            for c in pick:
                out.append({"child": c})
                out.append({"v": 2, "child": c})
                out.append({"kids": [c]})
                out.append({"m": {"k": c}})
            out.append({"kids": [pick[0], pick[-1]], "m": {"a": pick[-1], "b": pick[0]}})
            return out
        seen, res = set(), []
        import json
        for p in gen(3 if self.tier == "thorough" else 2):
            k = json.dumps(av.canon(p))
            if k not in seen:
                seen.add(k)
                res.append(p)
        return res

    def cases(self) -> Iterator[Tuple[int, TypeCase, int, Dict[str, Any]]]:
        for ti, tc in enumerate(self.types):
            for vi, v in enumerate(tc.values):
                yield ti, tc, vi, v

    def count(self) -> int:
        return sum(len(t.values) for t in self.types)

    def view604(self) -> "_View":
        """The same universe with message classes annotated the typing.310 way."""
        if self._bp604 is None:
            self._bp604 = build_bp(self.schema, "vf_universe604_" + self.tier, style="pep604")
        return _View(self, self._bp604)


_CACHE: Dict[Tuple, Universe] = {}


_LIB_SCHEMA = Schema("vfl", (COLOR, SHADE), LIB_MSGS)


def fresh_variant(m: Msg, aval) -> bool:
    """Does the value hold an empty message in an optional/oneof/repeated/map position?  (Nested
    message kinds of the universe are all library types, so the library schema resolves them.)"""
    return av.has_fresh_variant(_LIB_SCHEMA, m, aval)


def lazy_variant(m: Msg, aval) -> bool:
    return av.has_lazy_variant(_LIB_SCHEMA, m, aval)


def get_universe(tier: str, pairs: bool = True) -> Universe:
    key = (tier, pairs)
    if key not in _CACHE:
        _CACHE[key] = Universe(tier, pairs)
    return _CACHE[key]
