"""Spec-level proto3 JSON mapping of abstract values (boring on purpose).

``to_json_dict(schema, m, aval)`` renders what the canonical mapping prescribes;
it is validated against google.protobuf.json_format on every case where it is used
(a disagreement is a harness error).  ``shape_errors`` checks the lexical clauses of
the mapping on a dict emitted by the implementation.
"""
from __future__ import annotations

import base64
import math
import re
from datetime import datetime, timedelta
from typing import Any, Dict, List

from . import absval as av
from .schema import Field, Msg, Schema, _camel, base_kind, kind_arg

INT64_KINDS = ("int64", "uint64", "sint64", "fixed64", "sfixed64")
DUR_RE = re.compile(r"^-?\d+(\.\d{3}|\.\d{6}|\.\d{9})?s$")
TS_RE = re.compile(r"^\d{4}-\d{2}-\d{2}T\d{2}:\d{2}:\d{2}(\.\d{3}|\.\d{6}|\.\d{9})?Z$")


def ts_json(dt: datetime) -> str:
    s, n = av.ts_parts(dt)
    base = (av.EPOCH + timedelta(seconds=s)).strftime("%Y-%m-%dT%H:%M:%S")
    # strftime pads years < 1000 inconsistently on some platforms
    d = av.EPOCH + timedelta(seconds=s)
    base = "%04d-%02d-%02dT%02d:%02d:%02d" % (d.year, d.month, d.day, d.hour, d.minute, d.second)
    if n == 0:
        return base + "Z"
    us = n // 1000
    if us % 1000 == 0:
        return base + ".%03dZ" % (us // 1000)
    return base + ".%06dZ" % us


def dur_json(td: timedelta) -> str:
    us = td // av.US
    sign = "-" if us < 0 else ""
    s, frac = divmod(abs(us), 10**6)
    if frac == 0:
        return f"{sign}{s}s"
    if frac % 1000 == 0:
        return f"{sign}{s}.{frac // 1000:03d}s"
    return f"{sign}{s}.{frac:06d}s"


def elem_json(schema: Schema, kind: str, v: Any) -> Any:
    b = base_kind(kind)
    if b == "wrap":
        return elem_json(schema, kind_arg(kind), v)
    if b in INT64_KINDS:
        return str(v)
    if b in ("float", "double"):
        if math.isnan(v):
            return "NaN"
        if math.isinf(v):
            return "Infinity" if v > 0 else "-Infinity"
        return v
    if b == "bytes":
        return base64.b64encode(v).decode()
    if b == "enum":
        e = schema.enum(kind_arg(kind))
        for n, num in e.members:
            if num == v:
                return n
        return v
    if b == "msg":
        return to_json_dict(schema, schema.msg(kind_arg(kind)), v)
    if b == "timestamp":
        return ts_json(v)
    if b == "duration":
        return dur_json(v)
    return v


def key_json(kind: str, k: Any) -> str:
    if kind == "bool":
        return "true" if k else "false"
    return str(k)


def to_json_dict(schema: Schema, m: Msg, aval: Dict[str, Any], names: str = "json") -> Dict[str, Any]:
    out: Dict[str, Any] = {}
    norm = av.normalize(schema, m, aval)
    for f in m.fields:
        if f.name not in norm:
            continue
        v = norm[f.name]
        key = _camel(f.pname) if names == "json" else f.pname
        if f.card == "repeated":
            out[key] = [elem_json(schema, f.kind, x) for x in v]
        elif f.card == "map":
            out[key] = {key_json(f.key, k): elem_json(schema, f.kind, x) for k, x in v.items()}
        else:
            out[key] = elem_json(schema, f.kind, v)
    return out


# ---------------------------------------------------------------------------
# lexical clauses on an emitted dict


def _elem_shape(schema: Schema, kind: str, x: Any, where: str, errs: List[str]) -> None:
    b = base_kind(kind)
    if b == "wrap":
        return _elem_shape(schema, kind_arg(kind), x, where, errs)
    if b in INT64_KINDS:
        if not isinstance(x, str) or not re.fullmatch(r"-?\d+", x):
            errs.append(f"{where}: 64-bit integer emitted as {type(x).__name__} {x!r}, must be a decimal string")
    elif b in av.INT_RANGES:
        if isinstance(x, bool) or not isinstance(x, int):
            errs.append(f"{where}: 32-bit integer emitted as {type(x).__name__} {x!r}")
    elif b in ("float", "double"):
        if isinstance(x, str):
            if x not in ("NaN", "Infinity", "-Infinity"):
                errs.append(f"{where}: float emitted as string {x!r}")
        elif isinstance(x, bool) or not isinstance(x, (int, float)) or (isinstance(x, float) and not math.isfinite(x)):
            errs.append(f"{where}: float emitted as {x!r}")
    elif b == "bool":
        if not isinstance(x, bool):
            errs.append(f"{where}: bool emitted as {x!r}")
    elif b == "string":
        if not isinstance(x, str):
            errs.append(f"{where}: string emitted as {type(x).__name__}")
    elif b == "bytes":
        if not isinstance(x, str):
            errs.append(f"{where}: bytes emitted as {type(x).__name__}, must be base64 text")
        else:
            try:
                base64.b64decode(x, validate=True)
            except Exception:
                errs.append(f"{where}: bytes emitted as non-base64 text {x!r}")
    elif b == "enum":
        e = schema.enum(kind_arg(kind))
        names = [n for n, _ in e.members]
        if isinstance(x, str):
            if x not in names:
                errs.append(f"{where}: enum emitted as unknown name {x!r}")
        elif isinstance(x, bool) or not isinstance(x, int):
            errs.append(f"{where}: enum emitted as {type(x).__name__}")
        elif int(x) in e.numbers:
            errs.append(f"{where}: defined enum value emitted as number {x!r}, must be its name")
    elif b == "timestamp":
        if not isinstance(x, str) or not TS_RE.match(x):
            errs.append(f"{where}: Timestamp emitted as {x!r}, must be RFC 3339 UTC 'Z' with 0/3/6/9 fractional digits")
    elif b == "duration":
        if not isinstance(x, str) or not DUR_RE.match(x):
            errs.append(f"{where}: Duration emitted as {x!r}, must be decimal seconds with 's'")
    elif b == "msg":
        if not isinstance(x, dict):
            errs.append(f"{where}: message emitted as {type(x).__name__}")
        else:
            errs.extend(shape_errors(schema, schema.msg(kind_arg(kind)), x, where + "."))


def shape_errors(schema: Schema, m: Msg, d: Dict[str, Any], path: str = "") -> List[str]:
    errs: List[str] = []
    by_key = {_camel(f.pname): f for f in m.fields}
    for k, v in d.items():
        if not isinstance(k, str):
            errs.append(f"{path}{k!r}: non-string key")
            continue
        f = by_key.get(k)
        if f is None:
            errs.append(f"{path}{k}: key is not the lowerCamelCase json_name of any field ({sorted(by_key)})")
            continue
        where = path + k
        if f.card == "repeated":
            if not isinstance(v, list):
                errs.append(f"{where}: repeated emitted as {type(v).__name__}")
                continue
            for x in v:
                _elem_shape(schema, f.kind, x, where + "[]", errs)
        elif f.card == "map":
            if not isinstance(v, dict):
                errs.append(f"{where}: map emitted as {type(v).__name__}")
                continue
            for kk, x in v.items():
                if not isinstance(kk, str):
                    errs.append(f"{where}: map key {kk!r} is {type(kk).__name__}, JSON object keys must be strings")
                _elem_shape(schema, f.kind, x, where + "{}", errs)
        else:
            _elem_shape(schema, f.kind, v, where, errs)
    return errs
