"""E5 runner: .proto text -> grpc_tools.protoc -> betterproto plugin (from the WORKING
TREE) -> importable package, plus the FileDescriptorSet protoc emits for the same
sources (parsed by google.protobuf's own descriptor_pb2: the independent oracle).

ruff is absent offline; a pass-through shim (tools/bin/ruff) is first on PATH.
"""
from __future__ import annotations

import atexit
import importlib
import os
import shutil
import subprocess
import sys
from dataclasses import dataclass, field
from typing import Dict, List, Optional

from .runner import REPO, VERIF, HarnessError

WORK = os.path.join(VERIF, ".work")
_made: List[str] = []
_counter = [0]


def _cleanup():
    for d in _made:
        shutil.rmtree(d, ignore_errors=True)
    try:
        if os.path.isdir(WORK) and not os.listdir(WORK):
            os.rmdir(WORK)
    except OSError:
        pass


atexit.register(_cleanup)


def grpc_include() -> str:
    import grpc_tools

    return os.path.join(os.path.dirname(grpc_tools.__file__), "_proto")


def _plugin_wrapper() -> str:
    path = os.path.join(VERIF, "tools", "bin", "protoc-gen-python_betterproto")
    if not os.path.exists(path):
        raise HarnessError("plugin wrapper missing: " + path)
    return path


@dataclass
class GenResult:
    rc: int
    stderr: str
    workdir: str
    srcdir: str
    outdir: str
    root: str  # name of the importable root package (outdir's basename)
    descriptor_set: Optional[bytes] = None
    files: List[str] = field(default_factory=list)

    def module(self, package: str):
        """Import the generated module for a proto package ('' = root)."""
        name = self.root + ("." + package if package else "")
        return importlib.import_module(name)

    def forget_imports(self):
        """Drop the generated modules from sys.modules (the next import starts from scratch)."""
        for k in [k for k in sys.modules if k == self.root or k.startswith(self.root + ".")]:
            del sys.modules[k]
        importlib.invalidate_caches()

    def fds(self):
        from google.protobuf import descriptor_pb2

        s = descriptor_pb2.FileDescriptorSet()
        s.ParseFromString(self.descriptor_set or b"")
        return s

    def cleanup(self):
        for k in [k for k in sys.modules if k == self.root or k.startswith(self.root + ".")]:
            del sys.modules[k]
        shutil.rmtree(self.workdir, ignore_errors=True)


def compile_protos(files: Dict[str, str], opts: Optional[List[str]] = None, tag: str = "g",
                   want_descriptor: bool = True, extra_src: Optional[str] = None,
                   timeout: int = 3000, request: Optional[List[str]] = None) -> GenResult:
    """Write ``files`` (relative path -> text), run protoc with the plugin, return result.

    The output directory is itself an importable package (``<tag>_<pid>_<n>``) so that
    proto files without a package (root ``__init__.py``) and relative imports work.
    """
    _counter[0] += 1
    os.makedirs(WORK, exist_ok=True)
    workdir = os.path.join(WORK, f"w{os.getpid()}_{_counter[0]}")
    shutil.rmtree(workdir, ignore_errors=True)
    os.makedirs(workdir)
    _made.append(workdir)
    srcdir = os.path.join(workdir, "src")
    root = f"{tag}_{os.getpid()}_{_counter[0]}"
    outdir = os.path.join(workdir, root)
    os.makedirs(srcdir)
    os.makedirs(outdir)
    names = []
    for rel, text in files.items():
        p = os.path.join(srcdir, rel)
        os.makedirs(os.path.dirname(p), exist_ok=True)
        with open(p, "w") as fh:
            fh.write(text)
        names.append(rel)
    if extra_src:
        for fn in sorted(os.listdir(extra_src)):
            if fn.endswith(".proto"):
                shutil.copy(os.path.join(extra_src, fn), os.path.join(srcdir, fn))
                names.append(fn)
    cmd = [
        sys.executable, "-m", "grpc_tools.protoc", f"-I{srcdir}", f"-I{grpc_include()}",
        f"--plugin=protoc-gen-python_betterproto={_plugin_wrapper()}",
        f"--python_betterproto_out={outdir}",
    ]
    if opts:
        cmd.append("--python_betterproto_opt=" + ",".join(opts))
    dset = os.path.join(workdir, "descriptors.bin")
    if want_descriptor:
        cmd += [f"--descriptor_set_out={dset}", "--include_imports", "--include_source_info"]
    # request: the files named on the protoc command line (default: all of them); the others are
    # only reachable through imports
    cmd += list(request) if request is not None else names
    env = dict(os.environ)
    env["PATH"] = os.path.join(VERIF, "tools", "bin") + os.pathsep + env.get("PATH", "")
    env["PYTHONPATH"] = os.path.join(REPO, "src") + os.pathsep + env.get("PYTHONPATH", "")
    env["VERIF_REPO"] = REPO
    try:
        r = subprocess.run(cmd, capture_output=True, text=True, env=env, timeout=timeout, cwd=srcdir)
        rc, err = r.returncode, r.stderr
    except subprocess.TimeoutExpired:
        rc, err = 124, "protoc/plugin timed out"
    res = GenResult(rc, err, workdir, srcdir, outdir, root)
    if want_descriptor and os.path.exists(dset):
        with open(dset, "rb") as fh:
            res.descriptor_set = fh.read()
    for dp, _, fns in os.walk(outdir):
        for fn in fns:
            res.files.append(os.path.relpath(os.path.join(dp, fn), outdir))
    if workdir not in sys.path:
        sys.path.insert(0, workdir)
    if not os.path.exists(os.path.join(outdir, "__init__.py")):
        open(os.path.join(outdir, "__init__.py"), "w").close()
    importlib.invalidate_caches()
    return res
