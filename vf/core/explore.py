"""E1: explicit-state breadth-first exploration of real objects.

A state is identified by the operation history that produced it; ``replay(history)``
rebuilds it on a FRESH real object (live objects are never copied by the explorer:
copy/deepcopy/pickle are operations under test).  States are merged on a canonical
key of the object's complete internal state (+ the reference model's state), so
equal keys have equal futures.  The search runs level by level to a fixpoint (or a
stated cap) and evaluates the invariant on every state and every edge.
"""
from __future__ import annotations

import json
from typing import Any, Callable, Dict, List, Optional, Sequence, Tuple

from .runner import HarnessError, Tally, Violation, merge_tallies, pmap_shards

_X: Dict[str, Any] = {}


class Space:
    """Override in checks."""

    name = "space"

    def initial_histories(self) -> List[List[Any]]:
        raise NotImplementedError

    def ops(self) -> List[Any]:
        """JSON-able operation descriptors."""
        raise NotImplementedError

    def replay(self, history: List[Any]):
        """Return (obj, model) after applying the history to fresh objects."""
        raise NotImplementedError

    def apply(self, obj, model, op):
        """Apply one op; return (obj', model').  May raise OpNotEnabled."""
        raise NotImplementedError

    def key(self, obj, model) -> str:
        raise NotImplementedError

    def check(self, obj, model, history: List[Any]) -> List[Tuple[List[str], str]]:
        """Invariant on a state: list of (signature, detail)."""
        raise NotImplementedError


class OpNotEnabled(Exception):
    pass


def _expand(shard: int, nshards: int, extra) -> Tally:
    space: Space = _X["space"]
    frontier: List[List[Any]] = _X["frontier"]
    ops = _X["ops"]
    t = Tally()
    succ: List[Tuple[str, List[Any]]] = []
    for idx in range(shard, len(frontier), nshards):
        hist = frontier[idx]
        for op in ops:
            try:
                obj, model = space.replay(hist)
            except Exception as e:  # replay of an already validated prefix must not fail
                raise HarnessError(f"replay of validated prefix failed: {hist!r}: {e!r}")
            try:
                obj2, model2 = space.apply(obj, model, op)
            except OpNotEnabled:
                continue
            except Exception as e:
                t.inc("transitions")
                t.violate(Violation(space.op_sig(op) + ["raised", type(e).__name__],
                                    f"history={hist + [op]!r}: operation raised {type(e).__name__}: {e}"[:500],
                                    {"history": hist + [op]}))
                continue
            t.inc("transitions")
            h2 = hist + [op]
            try:
                problems = space.check(obj2, model2, h2)
            except Exception as e:
                problems = [(space.op_sig(op) + ["check-raised", type(e).__name__],
                             f"invariant evaluation raised {type(e).__name__}: {e}")]
            for sig, detail in problems:
                t.violate(Violation(sig, f"history={h2!r}: {detail}"[:600], {"history": h2}))
            try:
                k = space.key(obj2, model2)
            except Exception as e:
                t.violate(Violation(space.op_sig(op) + ["key-raised", type(e).__name__],
                                    f"history={h2!r}: state unreadable: {e}"[:400], {"history": h2}))
                continue
            succ.append((k, h2))
    t.sets["succ"] = succ  # type: ignore
    return t


def bfs(space: Space, max_states: int = 200000, max_depth: int = 50,
        nshards: int = 32, is_known: Optional[Callable[[List[str]], bool]] = None) -> Dict[str, Any]:
    ops = space.ops()
    seen: Dict[str, List[Any]] = {}
    frontier: List[List[Any]] = []
    tally = Tally()
    for h in space.initial_histories():
        try:
            obj, model = space.replay(h)
            problems = space.check(obj, model, h)
            k = space.key(obj, model)
        except HarnessError:
            raise
        except Exception as e:
            tally.violate(Violation(space.op_sig(h[-1]) + ["raised", type(e).__name__],
                                    f"history={h!r}: {type(e).__name__}: {e}"[:500], {"history": h}))
            continue
        for sig, detail in problems:
            tally.violate(Violation(sig, f"history={h!r}: {detail}"[:600], {"history": h}))
        if k not in seen:
            seen[k] = h
            frontier.append(h)
    depth = 0
    capped = False
    stopped_on_violation = False
    level_sizes = [len(frontier)]
    while frontier and depth < max_depth:
        depth += 1
        _X.update(space=space, frontier=frontier, ops=ops)
        results = pmap_shards(_expand, min(nshards, max(1, len(frontier))), None)
        nxt: List[List[Any]] = []
        for t in results:
            succ = t.sets.pop("succ", [])
            tally.merge(t)
            for k, h in succ:
                if k not in seen:
                    if len(seen) >= max_states:
                        capped = True
                        continue
                    seen[k] = h
                    nxt.append(h)
        frontier = nxt
        level_sizes.append(len(frontier))
        if capped:
            break
        if any(not (is_known and is_known(v["signature"])) for v in tally.violations):
            # the invariant is already broken at this depth: the shortest witnesses are in hand;
            # deeper levels of a broken implementation only multiply states (model and
            # implementation diverge) and witnesses
            stopped_on_violation = True
            break
    return {
        "states": len(seen),
        "transitions": tally.n.get("transitions", 0),
        "depth": depth,
        "fixpoint": not frontier and not capped and not stopped_on_violation,
        "stopped_on_violation": stopped_on_violation,
        "capped": capped,
        "level_sizes": level_sizes,
        "tally": tally,
        "sample_histories": [seen[k] for k in list(seen)[:: max(1, len(seen) // 4)]][:4],
    }
