"""E4: stateless schedule exploration of real asyncio code under a virtual loop.

Semantics A (exact asyncio): ready handles run strictly FIFO in iterations (the batch is
fixed at iteration start, like BaseEventLoop._run_once).  All nondeterminism is:
  * at a driver ``await env.point()``: continue | yield (sleep(0)) | park (wait for an
    external event),
  * at every iteration boundary: release any parked driver (appended at the tail, any
    order, any number), fire the next timer (virtual clock jumps), or run the iteration.
These are exactly the behaviours a real event loop can exhibit for drivers of this shape.

Exploration is a depth-first enumeration of choice sequences with iterative DEVIATION
bounding: every execution replays a prefix on a fresh loop and takes default choices
(option 0) afterwards; a non-default choice costs one deviation.
"""
from __future__ import annotations

import asyncio
import heapq
from asyncio import events
from typing import Any, Callable, Dict, List, Optional, Tuple


class ReplayDivergence(Exception):
    pass


class VLoop(asyncio.BaseEventLoop):
    """An event loop without selector whose clock and stepping are owned by the explorer."""

    def __init__(self):
        super().__init__()
        self._vtime = 0.0
        self.exceptions: List[Dict[str, Any]] = []
        self.set_exception_handler(lambda loop, ctx: self.exceptions.append(ctx))
        self.handles_run = 0

    def time(self) -> float:
        return self._vtime

    def _process_events(self, event_list):  # pragma: no cover
        pass

    def _write_to_self(self):  # called by call_soon_threadsafe; unused
        pass

    # -- manual stepping ----------------------------------------------------
    def ready_count(self) -> int:
        return sum(1 for h in self._ready if not h._cancelled)

    def pending_timers(self) -> int:
        return sum(1 for h in self._scheduled if not h._cancelled)

    def run_iteration(self) -> int:
        ntodo = len(self._ready)
        for _ in range(ntodo):
            h = self._ready.popleft()
            if h._cancelled:
                continue
            h._run()
            self.handles_run += 1
        return ntodo

    def fire_next_timer(self) -> bool:
        while self._scheduled:
            h = heapq.heappop(self._scheduled)
            h._scheduled = False
            if h._cancelled:
                continue
            self._vtime = max(self._vtime, h._when)
            self._ready.append(h)
            return True
        return False


class Env:
    """Handed to driver coroutines: ``await env.point(label)`` is a scheduling point."""

    def __init__(self, sched: "Execution"):
        self._s = sched

    async def point(self, label: str = "") -> None:
        s = self._s
        choice = s.choose("point", 3)
        if choice == 0:
            return
        if choice == 1:
            await asyncio.sleep(0)
            return
        fut = s.loop.create_future()
        s.parked.append((label, fut))
        try:
            await fut
        finally:
            s.parked[:] = [(l, f) for l, f in s.parked if f is not fut]

    def log(self, *event) -> None:
        self._s.log.append(tuple(event))


class Execution:
    def __init__(self, prefix: List[int], horizon: int = 5000):
        self.prefix = prefix
        self.choices: List[int] = []
        self.widths: List[int] = []
        self.kinds: List[str] = []
        self.loop = VLoop()
        self.parked: List[Tuple[str, asyncio.Future]] = []
        self.log: List[Tuple] = []
        self.horizon = horizon
        self.livelock = False

    def choose(self, kind: str, n: int) -> int:
        i = len(self.choices)
        if i < len(self.prefix):
            c = self.prefix[i]
            if c >= n:
                raise ReplayDivergence(f"choice {i}: option {c} not available (width {n}, kind {kind})")
        else:
            c = 0
        self.choices.append(c)
        self.widths.append(n)
        self.kinds.append(kind)
        return c

    def run(self, setup: Callable[[Env], List[asyncio.Task]]) -> Dict[str, Any]:
        """Run one complete execution.  ``setup`` creates the tasks (inside the loop)."""
        loop = self.loop
        events._set_running_loop(loop)
        try:
            env = Env(self)
            tasks = setup(env)
            self.drive()
            return {"tasks": tasks, "env": env}
        finally:
            events._set_running_loop(None)

    def drive(self) -> None:
        loop = self.loop
        while True:
            if loop.handles_run > self.horizon:
                self.livelock = True
                return
            nready = loop.ready_count()
            live_parked = [(l, f) for l, f in self.parked if not f.done()]
            ntimers = loop.pending_timers()
            options: List[Tuple[str, Any]] = []
            if nready:
                options.append(("run", None))
            for l, f in live_parked:
                options.append(("release", f))
            if ntimers:
                options.append(("timer", None))
            if not options:
                return  # quiescent
            c = self.choose("boundary", len(options)) if len(options) > 1 else 0
            kind, arg = options[c]
            if kind == "run":
                loop.run_iteration()
            elif kind == "release":
                arg.set_result(None)
            else:
                loop.fire_next_timer()

    def finish(self, tasks: List[asyncio.Task]) -> None:
        """Cancel whatever is still pending and close the loop (no warnings leak out)."""
        loop = self.loop
        events._set_running_loop(loop)
        try:
            for t in tasks:
                if not t.done():
                    t.cancel()
            for _, f in self.parked:
                if not f.done():
                    f.cancel()
            for _ in range(50):
                if not loop.ready_count():
                    break
                loop.run_iteration()
            for t in tasks:
                if t.done() and not t.cancelled():
                    t.exception()  # mark retrieved
        finally:
            events._set_running_loop(None)
            loop._ready.clear()
            loop._scheduled.clear()
            loop.close()


def explore(run_one: Callable[[List[int]], Tuple[List[int], List[int], Any]],
            bound: Optional[int], max_execs: int, on_result: Callable[[List[int], Any], None],
            start: Optional[List[int]] = None) -> Dict[str, Any]:
    """Enumerate all choice sequences with at most ``bound`` deviations (None = unbounded).

    ``run_one(prefix)`` -> (choices, widths, result).  Depth-first, stateless.
    """
    stats = {"executions": 0, "choice_points": 0, "max_depth": 0, "capped": False,
             "deviation_bound": bound}
    stack: List[List[int]] = [list(start or [])]
    while stack:
        prefix = stack.pop()
        if stats["executions"] >= max_execs:
            stats["capped"] = True
            break
        choices, widths, result = run_one(prefix)
        if choices[:len(prefix)] != prefix:
            raise ReplayDivergence(f"prefix {prefix} replayed as {choices[:len(prefix)]}")
        stats["executions"] += 1
        stats["choice_points"] += len(choices)
        stats["max_depth"] = max(stats["max_depth"], len(choices))
        on_result(choices, result)
        used = sum(1 for c in prefix if c != 0)
        if bound is not None and used >= bound:
            continue
        # alternatives at every point after the prefix (the tail took option 0 everywhere)
        for i in range(len(choices) - 1, len(prefix) - 1, -1):
            for alt in range(widths[i] - 1, 0, -1):
                stack.append(choices[:i] + [alt])
    return stats
