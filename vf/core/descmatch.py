"""Compare generated betterproto classes with the FileDescriptorSet protoc emitted for
the same sources (parsed by google.protobuf's descriptor_pb2 -- independent of
betterproto's bundled descriptor classes)."""
from __future__ import annotations

import dataclasses
import typing
from datetime import datetime, timedelta
from typing import Any, Dict, List, Optional, Tuple

from google.protobuf import descriptor_pb2

F = descriptor_pb2.FieldDescriptorProto
TYPE_NAMES = {
    F.TYPE_DOUBLE: "double", F.TYPE_FLOAT: "float", F.TYPE_INT64: "int64", F.TYPE_UINT64: "uint64",
    F.TYPE_INT32: "int32", F.TYPE_FIXED64: "fixed64", F.TYPE_FIXED32: "fixed32", F.TYPE_BOOL: "bool",
    F.TYPE_STRING: "string", F.TYPE_MESSAGE: "message", F.TYPE_BYTES: "bytes", F.TYPE_UINT32: "uint32",
    F.TYPE_ENUM: "enum", F.TYPE_SFIXED32: "sfixed32", F.TYPE_SFIXED64: "sfixed64",
    F.TYPE_SINT32: "sint32", F.TYPE_SINT64: "sint64", F.TYPE_GROUP: "group",
}
PY_SCALAR = {
    "double": float, "float": float, "bool": bool, "string": str, "bytes": bytes,
    "int32": int, "int64": int, "uint32": int, "uint64": int, "sint32": int, "sint64": int,
    "fixed32": int, "fixed64": int, "sfixed32": int, "sfixed64": int,
}
WRAPPERS = {
    ".google.protobuf.DoubleValue": "double", ".google.protobuf.FloatValue": "float",
    ".google.protobuf.Int32Value": "int32", ".google.protobuf.Int64Value": "int64",
    ".google.protobuf.UInt32Value": "uint32", ".google.protobuf.UInt64Value": "uint64",
    ".google.protobuf.BoolValue": "bool", ".google.protobuf.StringValue": "string",
    ".google.protobuf.BytesValue": "bytes",
}

Problem = Tuple[str, str, str]  # (oracle, where, detail)


class Index:
    """full type name -> (package, [path]) for every message/enum of a FileDescriptorSet."""

    def __init__(self, fds):
        self.types: Dict[str, Tuple[str, List[str], str]] = {}
        self.msgs: Dict[str, Any] = {}
        for fd in fds.file:
            prefix = "." + fd.package if fd.package else ""
            for e in fd.enum_type:
                self.types[f"{prefix}.{e.name}"] = (fd.package, [e.name], "enum")
            for m in fd.message_type:
                self._walk(fd.package, prefix, [m.name], m)

    def _walk(self, package, prefix, path, m):
        full = prefix + "." + ".".join(path)
        self.types[full] = (package, list(path), "message")
        self.msgs[full] = m
        for e in m.enum_type:
            self.types[full + "." + e.name] = (package, path + [e.name], "enum")
        for n in m.nested_type:
            self._walk(package, prefix, path + [n.name], n)


def resolve_hints(cls) -> Dict[str, Any]:
    """Resolved type hints of a generated class through the public typing API (the module's
    globals are where forward references such as "pkg__.Type" live)."""
    import sys

    mod = sys.modules.get(cls.__module__)
    return typing.get_type_hints(cls, vars(mod) if mod is not None else None, {})


def class_name(path: List[str]) -> str:
    from betterproto.compile.naming import pythonize_class_name

    return pythonize_class_name("_" + "_".join(path))


def is_optional_hint(h) -> Tuple[bool, Any]:
    import types as _types

    origin = typing.get_origin(h)
    if origin is typing.Union or (hasattr(_types, "UnionType") and isinstance(h, _types.UnionType)):
        args = [a for a in typing.get_args(h) if a is not type(None)]
        if len(args) == 1 and len(typing.get_args(h)) == 2:
            return True, args[0]
    return False, h


class Matcher:
    def __init__(self, res, pydantic: bool = False):
        self.res = res
        self.fds = res.fds()
        self.index = Index(self.fds)
        self.pydantic = pydantic
        self.problems: List[Problem] = []
        self.compared = 0
        self._modules: Dict[str, Any] = {}

    def bad(self, oracle: str, where: str, detail: str):
        self.problems.append((oracle, where, detail[:400]))

    def module(self, package: str):
        if package not in self._modules:
            self._modules[package] = self.res.module(package)
        return self._modules[package]

    def resolve(self, type_name: str):
        """The Python object a proto type name must resolve to."""
        import betterproto

        if type_name.startswith(".google.protobuf.") and type_name not in self.index.types:
            lib = "betterproto.lib.pydantic.google.protobuf" if self.pydantic else "betterproto.lib.google.protobuf"
            import importlib

            return getattr(importlib.import_module(lib), type_name.rsplit(".", 1)[1])
        if type_name.startswith(".google.protobuf.") and not self.res_has_package("google.protobuf"):
            lib = "betterproto.lib.pydantic.google.protobuf" if self.pydantic else "betterproto.lib.google.protobuf"
            import importlib

            return getattr(importlib.import_module(lib), class_name(self.index.types[type_name][1]))
        package, path, _ = self.index.types[type_name]
        return getattr(self.module(package), class_name(path))

    def res_has_package(self, package: str) -> bool:
        import os

        return os.path.exists(os.path.join(self.res.outdir, *package.split("."), "__init__.py")) and \
            os.path.getsize(os.path.join(self.res.outdir, *package.split("."), "__init__.py")) > 0

    # ------------------------------------------------------------------
    def check_files(self, source_files: List[str]) -> List[Problem]:
        import betterproto

        by_package: Dict[str, List[Any]] = {}
        for fd in self.fds.file:
            if fd.name in source_files:
                by_package.setdefault(fd.package, []).append(fd)
        for package, fds in by_package.items():
            try:
                mod = self.module(package)
            except Exception as e:
                self.bad("import-failed", package or "<root>", f"{type(e).__name__}: {e}")
                continue
            expected_msgs = 0
            expected_enums = 0
            seen_cls: Dict[int, str] = {}
            for fd in fds:
                for e in fd.enum_type:
                    expected_enums += 1
                    self.check_enum(mod, [e.name], e, seen_cls)
                for m in fd.message_type:
                    expected_msgs += self.check_message(mod, fd, [m.name], m, seen_cls)
                    expected_enums += self.count_enums(m)
            defined_msgs = [c for c in vars(mod).values() if isinstance(c, type)
                            and issubclass(c, betterproto.Message) and c.__module__ == mod.__name__]
            defined_enums = [c for c in vars(mod).values() if isinstance(c, type)
                             and issubclass(c, betterproto.Enum) and c.__module__ == mod.__name__]
            if len(defined_msgs) != expected_msgs:
                self.bad("class-count", package or "<root>",
                         f"{len(defined_msgs)} message classes generated for {expected_msgs} messages")
            if len(defined_enums) != expected_enums:
                self.bad("class-count", package or "<root>",
                         f"{len(defined_enums)} enum classes generated for {expected_enums} enums")
        return self.problems

    def count_enums(self, m) -> int:
        return len(m.enum_type) + sum(self.count_enums(n) for n in m.nested_type if not n.options.map_entry)

    def check_enum(self, mod, path, e, seen_cls):
        import betterproto
        from betterproto.compile.naming import pythonize_enum_member_name

        where = ".".join(path)
        cls = getattr(mod, class_name(path), None)
        if not (isinstance(cls, type) and issubclass(cls, betterproto.Enum)):
            self.bad("enum-class-missing", where, f"no Enum class {class_name(path)!r}")
            return
        if id(cls) in seen_cls:
            self.bad("class-collision", where, f"same class as {seen_cls[id(cls)]}")
        seen_cls[id(cls)] = where
        want = sorted(v.number for v in e.value)
        got = sorted(int(x) for x in cls.__members__.values())
        self.compared += 1
        if want != got:
            self.bad("enum-members", where, f"schema numbers {want}, class members {got}")
        from betterproto.casing import sanitize_name
        for v in e.value:
            # the member may be named after the simple or the flattened enum name
            # (prefix stripping) -- any of them must carry the schema's number
            cands = {pythonize_enum_member_name(v.name, e.name),
                     pythonize_enum_member_name(v.name, "_" + "_".join(path)),
                     sanitize_name(v.name)}
            mems = [cls.__members__[c] for c in cands if c in cls.__members__]
            self.compared += 1
            if not mems or any(int(mm) != v.number for mm in mems):
                self.bad("enum-member-number", where,
                         f"{v.name}={v.number} is represented by {[(c, int(cls.__members__[c])) for c in cands if c in cls.__members__]!r}")

    def check_message(self, mod, fd, path, m, seen_cls) -> int:
        import betterproto

        if m.options.map_entry:
            return 0
        count = 1
        where = ".".join(path)
        prefix = ("." + fd.package if fd.package else "") + "." + where
        cls = getattr(mod, class_name(path), None)
        if not (isinstance(cls, type) and issubclass(cls, betterproto.Message)):
            self.bad("message-class-missing", where, f"no Message class {class_name(path)!r}")
        else:
            if id(cls) in seen_cls:
                self.bad("class-collision", where, f"same class as {seen_cls[id(cls)]}")
            seen_cls[id(cls)] = where
            self.check_fields(cls, prefix, where, m)
        for e in m.enum_type:
            self.check_enum(mod, path + [e.name], e, seen_cls)
        for n in m.nested_type:
            count += self.check_message(mod, fd, path + [n.name], n, seen_cls)
        return count

    def check_fields(self, cls, prefix, where, m):
        try:
            fields = dataclasses.fields(cls)
            hints = resolve_hints(cls)
        except Exception as e:
            self.bad("hints-unresolvable", where, f"{type(e).__name__}: {e}")
            return
        metas = [(f, f.metadata.get("betterproto")) for f in fields]
        if len(fields) != len(m.field):
            self.bad("field-count", where, f"{len(fields)} dataclass fields for {len(m.field)} schema fields")
        entries = {n.name: n for n in m.nested_type if n.options.map_entry}
        for fdp in m.field:
            fw = f"{where}.{fdp.name}"
            hit = [(f, meta) for f, meta in metas if meta is not None and meta.number == fdp.number]
            self.compared += 1
            if len(hit) != 1:
                self.bad("field-number", fw, f"{len(hit)} class fields carry number {fdp.number}")
                continue
            f, meta = hit[0]
            is_map = False
            entry = None
            if fdp.type == F.TYPE_MESSAGE and fdp.label == F.LABEL_REPEATED:
                ename = fdp.type_name.rsplit(".", 1)[1]
                if fdp.type_name == f"{prefix}.{ename}" and ename in entries:
                    is_map, entry = True, entries[ename]
            want_type = "map" if is_map else TYPE_NAMES[fdp.type]
            if meta.proto_type != want_type:
                self.bad("field-type", fw, f"proto_type {meta.proto_type!r}, schema says {want_type!r}")
                continue
            real_oneof = fdp.HasField("oneof_index") and not fdp.proto3_optional
            want_group = m.oneof_decl[fdp.oneof_index].name if real_oneof else None
            if meta.group != want_group:
                self.bad("field-group", fw, f"group {meta.group!r}, schema says {want_group!r}")
            want_opt = bool(fdp.proto3_optional)
            if bool(meta.optional) != want_opt and not (self.pydantic and real_oneof):
                self.bad("field-optional", fw, f"optional={meta.optional!r}, schema says {want_opt}")
            want_wraps = WRAPPERS.get(fdp.type_name) if fdp.type == F.TYPE_MESSAGE and not is_map else None
            if meta.wraps != want_wraps:
                self.bad("field-wraps", fw, f"wraps={meta.wraps!r}, schema says {want_wraps!r}")
            h = hints.get(f.name)
            if is_map:
                k, v = entry.field[0], entry.field[1]
                want_mt = (TYPE_NAMES[k.type], TYPE_NAMES[v.type])
                if tuple(meta.map_types or ()) != want_mt:
                    self.bad("map-types", fw, f"map_types {meta.map_types!r}, schema says {want_mt!r}")
                if typing.get_origin(h) is not dict:
                    self.bad("cardinality", fw, f"type hint {h!r} is not a Dict")
                    continue
                ka, va = typing.get_args(h)
                if ka is not PY_SCALAR[TYPE_NAMES[k.type]]:
                    self.bad("map-key-hint", fw, f"key hint {ka!r}")
                self.check_elem(fw, v, va)
                continue
            if fdp.label == F.LABEL_REPEATED:
                if typing.get_origin(h) is not list:
                    self.bad("cardinality", fw, f"repeated field has type hint {h!r}")
                    continue
                self.check_elem(fw, fdp, typing.get_args(h)[0])
                continue
            if typing.get_origin(h) in (list, dict):
                self.bad("cardinality", fw, f"singular field has type hint {h!r}")
                continue
            opt, inner = is_optional_hint(h)
            if want_opt and not opt:
                self.bad("cardinality", fw, f"proto3 optional field has type hint {h!r}")
                continue
            if opt and not want_opt and want_wraps is None and not (self.pydantic and real_oneof):
                self.bad("cardinality", fw, f"non-optional field has Optional type hint {h!r}")
            if want_opt and want_wraps is not None:
                # Optional[Optional[x]] collapses
                self.check_elem(fw, fdp, h)
            else:
                self.check_elem(fw, fdp, h if want_wraps is not None else inner)

    def check_elem(self, fw, fdp, h):
        self.compared += 1
        t = TYPE_NAMES[fdp.type]
        if t in PY_SCALAR:
            if h is not PY_SCALAR[t]:
                self.bad("elem-hint", fw, f"{t} field has type hint {h!r}")
            return
        tn = fdp.type_name
        if tn in WRAPPERS:
            opt, inner = is_optional_hint(h)
            if not opt or inner is not PY_SCALAR[WRAPPERS[tn]]:
                self.bad("elem-hint", fw, f"{tn} field has type hint {h!r}")
            return
        if tn == ".google.protobuf.Timestamp":
            if h is not datetime:
                self.bad("elem-hint", fw, f"Timestamp field has type hint {h!r}")
            return
        if tn == ".google.protobuf.Duration":
            if h is not timedelta:
                self.bad("elem-hint", fw, f"Duration field has type hint {h!r}")
            return
        try:
            want = self.resolve(tn)
        except Exception as e:
            self.bad("reference-unresolvable", fw, f"{tn}: {type(e).__name__}: {e}")
            return
        if h is not want:
            self.bad("reference-wrong-class", fw, f"{tn} resolves to {h!r}, expected {want!r}")
