"""Abstract message values: alphabets, builders (betterproto by route, reference),
observers (projection back to abstract values) and canonical forms.

An abstract value of a message is a plain dict ``{field_name: value}``:
  scalar -> python value; enum -> int; timestamp -> aware datetime; duration ->
  timedelta; wrap -> python value; msg -> nested dict; repeated -> list; map -> dict.
A missing key means "never set".  ``normalize`` computes what every faithful
implementation must report after a round trip (defaults of implicit-presence fields
dropped, empty containers dropped, float32 rounded).
"""
from __future__ import annotations

import math
import struct
from datetime import datetime, timedelta, timezone
from typing import Any, Dict, List

from .schema import SCALARS, Field, Msg, Schema, base_kind, kind_arg

UTC = timezone.utc
EPOCH = datetime(1970, 1, 1, tzinfo=UTC)
US = timedelta(microseconds=1)

INT_RANGES = {
    "int32": (-(2**31), 2**31 - 1), "sint32": (-(2**31), 2**31 - 1),
    "sfixed32": (-(2**31), 2**31 - 1), "uint32": (0, 2**32 - 1),
    "fixed32": (0, 2**32 - 1), "int64": (-(2**63), 2**63 - 1),
    "sint64": (-(2**63), 2**63 - 1), "sfixed64": (-(2**63), 2**63 - 1),
    "uint64": (0, 2**64 - 1), "fixed64": (0, 2**64 - 1),
}
INT_ALPHA = [
    0, 1, -1, 127, 128, 300, 16383, 16384, 2**31 - 1, -(2**31), 2**31, 2**32 - 1,
    2**32, 2**53 + 1, 2**63 - 1, -(2**63), 2**63, 2**64 - 1,
]
# every varint length boundary: 2^(7k) for the plain kinds, +-2^(7k-1) for the zig-zag kinds
for _k in range(1, 10):
    for _v in (2**(7 * _k) - 1, 2**(7 * _k), 2**(7 * _k - 1) - 1, 2**(7 * _k - 1), 2**(7 * _k - 1) + 1,
               -(2**(7 * _k - 1)) + 1, -(2**(7 * _k - 1)), -(2**(7 * _k - 1)) - 1):
        if _v not in INT_ALPHA:
            INT_ALPHA.append(_v)
F32_MAX = 3.4028234663852886e38
F32_DENORM = 1.401298464324817e-45


def f32(x: float) -> float:
    return struct.unpack("<f", struct.pack("<f", x))[0]


# (only float32-exact values: a field of kind float cannot give back 0.1 or 3.4028235e38, so the
# round-trip checks must not hold them; doubles that are NOT float32-exact are exercised where the
# encoding itself is compared with the reference - FLOAT_INEXACT, used by C16)
FLOAT_ALPHA = [0.0, -0.0, 1.5, -1.5, f32(0.1), F32_MAX, F32_DENORM, math.inf, -math.inf, math.nan]
# 3.4028235e38 is a double just ABOVE the largest float32 that still rounds to it
FLOAT_INEXACT = [0.1, 3.4028235e38, -3.4028235e38, 16777217.0]
DOUBLE_ALPHA = [0.0, -0.0, 1.5, -1.5, 0.1, F32_MAX, 5e-324, 1.7976931348623157e308,
                math.inf, -math.inf, math.nan]
STRING_ALPHA = ["", "a", "é", "\U0001F600", "\x00", "x" * 128,
                "y" * 125, "y" * 126, "y" * 127, "y" * 129, "z" * 16381, "z" * 16382, "z" * 16383, "z" * 16384]
BYTES_ALPHA = [b"", b"\x00", b"\xff\xfe", bytes(range(128)),
               bytes(125), bytes(126), bytes(127), bytes(129), bytes(16382), bytes(16383)]
ENUM_DEFINED = [0, 1, -1, 2**31 - 1, -(2**31)]
ENUM_UNDEFINED = [7, -5, 200]   # 200: one byte as a number, two bytes as a varint
TS_ALPHA = [
    EPOCH,
    EPOCH + US,
    EPOCH - US,
    datetime(2001, 2, 3, 4, 5, 6, 789012, tzinfo=UTC),
    datetime(2001, 2, 3, 4, 5, 6, 789000, tzinfo=UTC),
    datetime(1, 1, 1, tzinfo=UTC),
    datetime(9999, 12, 31, 23, 59, 59, 999999, tzinfo=UTC),
    EPOCH + timedelta(seconds=2**31 + 1),
    datetime(1969, 12, 31, 23, 59, 58, 500000, tzinfo=UTC),
    # aware datetimes that are not UTC (the instant is what is stored)
    datetime(2001, 2, 3, 4, 5, 6, 789012, tzinfo=timezone(timedelta(hours=5, minutes=30))),
    datetime(1969, 12, 31, 20, 0, 0, 250000, tzinfo=timezone(-timedelta(hours=3, minutes=30))),
]
DUR_ALPHA = [
    timedelta(0),
    US,
    -US,
    timedelta(seconds=1, microseconds=500000),
    -timedelta(seconds=1, microseconds=500000),
    timedelta(days=1, seconds=1, microseconds=1000),
    timedelta(seconds=315576000000),
    -timedelta(seconds=315576000000),
    timedelta(seconds=2**31 + 1, microseconds=999999),
    # more than 53 bits of seconds x microseconds: a codec that goes through a double loses these
    timedelta(days=200000, microseconds=1),
    -timedelta(seconds=315575999999, microseconds=999999),
]
SUB_ALPHA = [{}, {"a": 1}, {"s": "x"}, {"a": -1, "s": "é"}]


def scalar_default(kind: str):
    b = base_kind(kind)
    if b in ("double", "float"):
        return 0.0
    if b == "bool":
        return False
    if b == "string":
        return ""
    if b == "bytes":
        return b""
    if b == "enum":
        return 0
    return 0


def alphabet(schema: Schema, kind: str, level: str = "full") -> List[Any]:
    """Value alphabet of one element of the given kind, simplest first."""
    b = base_kind(kind)
    if b == "wrap":
        return alphabet(schema, kind_arg(kind), level)
    if b in INT_RANGES:
        lo, hi = INT_RANGES[b]
        vals = [v for v in INT_ALPHA if lo <= v <= hi]
        if level == "reduced":
            vals = [0, 1, lo if lo < 0 else hi]
            if b in ("int32", "int64", "sint32", "sint64"):
                vals.append(-1)
        return vals
    if b == "float":
        return FLOAT_ALPHA if level == "full" else [0.0, 1.5, math.nan]
    if b == "double":
        return DOUBLE_ALPHA if level == "full" else [0.0, 0.1, -math.inf]
    if b == "bool":
        return [False, True]
    if b == "string":
        return STRING_ALPHA if level == "full" else ["", "a", "\U0001F600"]
    if b == "bytes":
        return BYTES_ALPHA if level == "full" else [b"", b"\x00", b"\xff\xfe"]
    if b == "enum":
        e = schema.enum(kind_arg(kind))
        defined = []
        for n in e.numbers:
            if n not in defined:
                defined.append(n)
        if 0 in defined:
            defined.remove(0)
        defined = [0] + defined
        und = [n for n in ENUM_UNDEFINED if n not in defined]
        if level == "reduced":
            return defined[:2] + [x for x in defined if x < 0][:1] + und[:1]
        return defined + und
    if b == "timestamp":
        return TS_ALPHA if level == "full" else TS_ALPHA[:4]
    if b == "duration":
        return DUR_ALPHA if level == "full" else DUR_ALPHA[:5]
    if b == "msg":
        name = kind_arg(kind)
        m = schema.msg(name)
        if not m.fields:
            return [{}]
        if name == "Sub":
            return SUB_ALPHA if level == "full" else SUB_ALPHA[:3]
        if name == "Rec":
            return REC_ALPHA if level == "full" else REC_ALPHA[:3]
        # generic: present-empty + first field set to each non-default reduced value
        out: List[Any] = [{}]
        for f in m.fields:
            if f.card in ("single", "optional", "oneof") and f.base != "msg":
                for v in alphabet(schema, f.kind, "reduced")[1:2]:
                    out.append({f.name: v})
        return out
    raise ValueError(kind)


REC_ALPHA = [
    {},
    {"v": 1},
    {"child": {}},
    {"child": {"v": 2}},
    {"child": {"child": {"v": 3}}},
    {"kids": [{}]},
    {"kids": [{"v": 1}, {}]},
    {"m": {"k": {}}},
    {"m": {"k": {"v": 1}, "": {"child": {}}}},
    {"v": -1, "child": {"kids": [{"m": {"z": {"v": 5}}}]}},
    # depth 8 through singular children, and depth 6 alternating containers
    {"child": {"child": {"child": {"child": {"child": {"child": {"child": {"v": 8}}}}}}}},
    {"kids": [{"m": {"a": {"child": {"kids": [{"m": {"b": {"v": 6}}}]}}}}]},
]

KEY_ALPHA = {
    "string": ["", "a", "é", "1", "-07"],   # incl. keys that look like numbers
    "bool": [False, True],
}


def key_alphabet(kind: str) -> List[Any]:
    if kind in KEY_ALPHA:
        return KEY_ALPHA[kind]
    lo, hi = INT_RANGES[kind]
    return [0, 1, lo if lo < 0 else hi]


# ---------------------------------------------------------------------------
# canonical forms / comparison


def canon(v: Any) -> Any:
    """JSON-able, hashable-after-dumps canonical form (NaN -> 'NaN', bytes -> hex ...)."""
    if isinstance(v, dict):
        return {"d": sorted(([canon(k), canon(x)] for k, x in v.items()), key=repr)}
    if isinstance(v, (list, tuple)):
        return [canon(x) for x in v]
    if isinstance(v, bool):
        return v
    if isinstance(v, float):
        if math.isnan(v):
            return "f:nan"
        if math.isinf(v):
            return "f:inf" if v > 0 else "f:-inf"
        return "f:" + repr(v)  # -0.0 and 0.0 are different values (the reference keeps the sign)
    if isinstance(v, int):
        return int(v)
    if isinstance(v, bytes):
        return "b:" + v.hex()
    if isinstance(v, datetime):
        return "t:" + str((v - EPOCH) // US)
    if isinstance(v, timedelta):
        return "u:" + str(v // US)
    if isinstance(v, str):
        return "s:" + v
    if v is None:
        return None
    raise TypeError(f"canon: {type(v)} {v!r}")


def aval_eq(a: Any, b: Any) -> bool:
    return canon(a) == canon(b)


def _norm_elem(schema: Schema, kind: str, v: Any) -> Any:
    b = base_kind(kind)
    if b == "msg":
        return normalize(schema, schema.msg(kind_arg(kind)), v)
    if b == "wrap":
        return _norm_elem(schema, kind_arg(kind), v)
    if b == "float" and isinstance(v, float) and not math.isnan(v) and not math.isinf(v):
        return f32(v)
    if b == "enum":
        return int(v)
    return v


def normalize(schema: Schema, m: Msg, aval: Dict[str, Any]) -> Dict[str, Any]:
    """What a faithful implementation reports after any round trip of ``aval``."""
    out: Dict[str, Any] = {}
    for f in m.fields:
        if f.name not in aval:
            continue
        v = aval[f.name]
        if f.card == "repeated":
            if v:
                out[f.name] = [_norm_elem(schema, f.kind, x) for x in v]
        elif f.card == "map":
            if v:
                out[f.name] = {k: _norm_elem(schema, f.kind, x) for k, x in v.items()}
        elif f.card in ("optional", "oneof"):
            out[f.name] = _norm_elem(schema, f.kind, v)
        else:  # single
            b = f.base
            if b in ("msg", "wrap"):
                out[f.name] = _norm_elem(schema, f.kind, v)
            elif b == "timestamp":
                # betterproto maps Timestamp to a datetime without presence:
                # epoch is indistinguishable from unset (documented mapping).
                if v != EPOCH:
                    out[f.name] = v
            elif b == "duration":
                if v != timedelta(0):
                    out[f.name] = v
            else:
                nv = _norm_elem(schema, f.kind, v)
                d = scalar_default(f.kind)
                if isinstance(nv, float) and (math.isnan(nv) or (nv == 0 and math.copysign(1.0, nv) < 0)):
                    out[f.name] = nv  # NaN and -0.0 are not the default: they are sent
                elif nv != d:
                    out[f.name] = nv
    return out


# ---------------------------------------------------------------------------
# timestamp / duration component model (integer arithmetic, boring on purpose)


def ts_parts(dt: datetime):
    us = (dt - EPOCH) // US
    s, frac = divmod(us, 10**6)
    return s, frac * 1000


def ts_from_parts(s: int, n: int) -> datetime:
    return EPOCH + timedelta(seconds=s, microseconds=n // 1000)


def dur_parts(td: timedelta):
    us = td // US
    sign = -1 if us < 0 else 1
    a = abs(us)
    return sign * (a // 10**6), sign * (a % 10**6) * 1000


def dur_from_parts(s: int, n: int) -> timedelta:
    return timedelta(seconds=s) + (n // 1000 if n >= 0 else -((-n) // 1000)) * US


# ---------------------------------------------------------------------------
# reference builder / projection


def _ref_set_elem(schema: Schema, kind: str, target, v) -> None:
    """Fill message-like ``target`` (a reference sub-message) from abstract value."""
    b = base_kind(kind)
    if b == "msg":
        fill_ref(schema, schema.msg(kind_arg(kind)), target, v)
        target.SetInParent()
    elif b == "timestamp":
        s, n = ts_parts(v)
        target.seconds, target.nanos = s, n
        target.SetInParent()
    elif b == "duration":
        s, n = dur_parts(v)
        target.seconds, target.nanos = s, n
        target.SetInParent()
    elif b == "wrap":
        target.value = v
        target.SetInParent()
    else:
        raise ValueError(kind)


def _is_msglike(kind: str) -> bool:
    return base_kind(kind) in ("msg", "timestamp", "duration", "wrap")


def fill_ref(schema: Schema, m: Msg, ref, aval: Dict[str, Any]) -> None:
    for f in m.fields:
        if f.name not in aval:
            continue
        v = aval[f.name]
        if f.card == "repeated":
            rep = getattr(ref, f.pname)
            for x in v:
                if _is_msglike(f.kind):
                    _ref_set_elem(schema, f.kind, rep.add(), x)
                else:
                    rep.append(x)
        elif f.card == "map":
            mp = getattr(ref, f.pname)
            for k, x in v.items():
                if _is_msglike(f.kind):
                    _ref_set_elem(schema, f.kind, mp[k], x)
                else:
                    mp[k] = x
        else:
            if _is_msglike(f.kind):
                _ref_set_elem(schema, f.kind, getattr(ref, f.pname), v)
            else:
                setattr(ref, f.pname, v)


def make_ref(schema: Schema, refns, m: Msg, aval: Dict[str, Any]):
    ref = refns.cls(m.name)()
    fill_ref(schema, m, ref, aval)
    return ref


def _ref_get_elem(schema: Schema, kind: str, x) -> Any:
    b = base_kind(kind)
    if b == "msg":
        return project_ref(schema, schema.msg(kind_arg(kind)), x)
    if b == "timestamp":
        return ts_from_parts(x.seconds, x.nanos)
    if b == "duration":
        return dur_from_parts(x.seconds, x.nanos)
    if b == "wrap":
        return x.value
    return x


def project_ref(schema: Schema, m: Msg, ref) -> Dict[str, Any]:
    out: Dict[str, Any] = {}
    for f in m.fields:
        if f.card == "repeated":
            lst = [_ref_get_elem(schema, f.kind, x) for x in getattr(ref, f.pname)]
            if lst:
                out[f.name] = lst
        elif f.card == "map":
            mp = getattr(ref, f.pname)
            d = {k: _ref_get_elem(schema, f.kind, mp[k]) for k in mp}
            if d:
                out[f.name] = d
        elif f.card == "oneof":
            if ref.WhichOneof(f.group) == f.pname:
                out[f.name] = _ref_get_elem(schema, f.kind, getattr(ref, f.pname))
        elif f.card == "optional" or _is_msglike(f.kind):
            if ref.HasField(f.pname):
                out[f.name] = _ref_get_elem(schema, f.kind, getattr(ref, f.pname))
        else:
            out[f.name] = getattr(ref, f.pname)
    return normalize(schema, m, out)


# ---------------------------------------------------------------------------
# betterproto builders, one per construction route

ROUTES_DIRECT = ("ctor", "setattr", "inplace")


def _bp_elem(ns, schema: Schema, kind: str, v: Any, route: str):
    b = base_kind(kind)
    if b == "msg":
        return make_bp(ns, schema, schema.msg(kind_arg(kind)), v, route)
    if b == "enum":
        return getattr(ns, kind_arg(kind)).try_value(v)
    return v


def _first_scalar_field(m: Msg):
    for f in m.fields:
        if f.card == "single" and f.base not in ("msg", "wrap", "timestamp", "duration"):
            return f
    return None


def make_bp(ns, schema: Schema, m: Msg, aval: Dict[str, Any], route: str):
    """Build a betterproto message holding ``aval`` via the given direct route.

    A present-but-empty sub-message (``{}``) is made present the way the README
    documents: by assigning a (default) value inside it.
    """
    cls = getattr(ns, m.name)
    if route in ("ctor", "ctor_fresh"):
        kwargs = {}
        for f in m.fields:
            if f.name in aval:
                kwargs[f.name] = _bp_container(ns, schema, f, aval[f.name], route)
        if not kwargs and m.fields:
            # present-empty marker handled by caller (see _bp_present_empty)
            pass
        return cls(**kwargs)
    msg = cls()
    if route == "lazy":
        _bp_fill_lazy(ns, schema, m, msg, aval)
        return msg
    for f in m.fields:
        if f.name not in aval:
            continue
        v = aval[f.name]
        if route == "inplace" and f.card in ("repeated", "map"):
            cur = getattr(msg, f.name)
            if f.card == "repeated":
                for x in v:
                    cur.append(_bp_single(ns, schema, f, x, route))
            else:
                for k, x in v.items():
                    cur[k] = _bp_single(ns, schema, f, x, route)
        elif route == "inplace" and f.card == "single" and f.base == "msg":
            sub = getattr(msg, f.name)
            _bp_fill_inplace(ns, schema, schema.msg(kind_arg(f.kind)), sub, v)
        else:
            if route == "inplace":
                # read first (materialises the lazy default), then assign
                try:
                    getattr(msg, f.name)
                except AttributeError:
                    pass
            setattr(msg, f.name, _bp_container(ns, schema, f, v, route))
    return msg


def _bp_fill_inplace(ns, schema, m: Msg, sub, aval) -> None:
    if not aval:
        _bp_touch(m, sub)
        return
    for f in m.fields:
        if f.name not in aval:
            continue
        v = aval[f.name]
        if f.card == "repeated":
            cur = getattr(sub, f.name)
            for x in v:
                cur.append(_bp_single(ns, schema, f, x, "inplace"))
            # in-place mutation of a lazily created list is invisible to the
            # parent; assignment inside is what marks presence
            setattr(sub, f.name, cur)
        elif f.card == "map":
            cur = getattr(sub, f.name)
            for k, x in v.items():
                cur[k] = _bp_single(ns, schema, f, x, "inplace")
            setattr(sub, f.name, cur)
        elif f.card == "single" and f.base == "msg":
            inner = getattr(sub, f.name)
            _bp_fill_inplace(ns, schema, schema.msg(kind_arg(f.kind)), inner, v)
            setattr(sub, f.name, inner)
        else:
            setattr(sub, f.name, _bp_container(ns, schema, f, v, "inplace"))


def _bp_fill_lazy(ns, schema, m: Msg, msg, aval) -> None:
    """The README idiom and nothing else: sub-messages are only ever READ (created lazily), lists
    and maps are changed in place, nothing is assigned back: ``m.child.child.v = 3``,
    ``m.child.kids.append(x)``, ``m.child.m[k] = x``."""
    for f in m.fields:
        if f.name not in aval:
            continue
        v = aval[f.name]
        if f.card == "repeated":
            cur = getattr(msg, f.name)
            for x in v:
                cur.append(_bp_single(ns, schema, f, x, "ctor"))
        elif f.card == "map":
            cur = getattr(msg, f.name)
            for k, x in v.items():
                cur[k] = _bp_single(ns, schema, f, x, "ctor")
        elif f.card == "single" and f.base == "msg":
            _bp_fill_lazy(ns, schema, schema.msg(kind_arg(f.kind)), getattr(msg, f.name), v)
        else:
            setattr(msg, f.name, _bp_container(ns, schema, f, v, "setattr"))


def has_lazy_variant(schema: Schema, m: Msg, aval: Dict[str, Any], top: bool = True) -> bool:
    """The 'lazy' route applies when the value has content below a plain sub-message field and no
    plain sub-message on the way is empty (an empty one needs an assignment to become present:
    that is the 'inplace' route; presence of default-only content below lazily created parents is
    the recorded finding KF-nested-inplace-presence and is C06's business)."""
    found = False
    for f in m.fields:
        if f.name not in aval or not (f.card == "single" and f.base == "msg"):
            continue
        sm = schema.msg(kind_arg(f.kind))
        v = aval[f.name]
        if not normalize(schema, sm, v):
            return False
        for g in sm.fields:  # every plain sub-message below must be non-empty too
            if g.name in v and g.card == "single" and g.base == "msg":
                if not has_lazy_variant(schema, sm, v, False):
                    return False
        found = True
    return found


def _bp_touch(m: Msg, sub) -> None:
    """Make an empty sub-message present by 'assigning something inside it'."""
    f = _first_scalar_field(m)
    if f is not None:
        setattr(sub, f.name, scalar_default(f.kind))
    else:
        sub._serialized_on_wire = True


def _bp_single(ns, schema: Schema, f: Field, v: Any, route: str):
    b = f.base
    if b == "msg":
        sm = schema.msg(kind_arg(f.kind))
        sub = make_bp(ns, schema, sm, v, "setattr" if route == "inplace" else route)
        if route.endswith("_fresh") and f.card != "single":
            # optional / oneof / repeated / map positions: the element is present because it is
            # THERE; a freshly constructed (untouched) instance must do
            return sub
        if not normalize(schema, sm, v) and sm.fields and not sub._serialized_on_wire:
            if route in ("ctor", "ctor_fresh"):
                fs = _first_scalar_field(sm)
                if fs is not None:
                    sub = getattr(ns, sm.name)(**{fs.name: scalar_default(fs.kind)})
                else:
                    sub._serialized_on_wire = True
            else:
                _bp_touch(sm, sub)
        return sub
    return _bp_elem(ns, schema, f.kind, v, route)


def has_fresh_variant(schema: Schema, m: Msg, aval: Dict[str, Any]) -> bool:
    """True when the value holds an EMPTY message in an optional / oneof / repeated / map position
    (at any depth): the '*_fresh' routes then build a different object than the plain ones."""
    for f in m.fields:
        if f.name not in aval or f.base != "msg":
            continue
        sm = schema.msg(kind_arg(f.kind))
        v = aval[f.name]
        items = list(v) if f.card == "repeated" else list(v.values()) if f.card == "map" else [v]
        for x in items:
            if not isinstance(x, dict):
                continue
            if f.card != "single" and not normalize(schema, sm, x) and sm.fields:
                return True
            if has_fresh_variant(schema, sm, x):
                return True
    return False


def _bp_container(ns, schema: Schema, f: Field, v: Any, route: str):
    if f.card == "repeated":
        return [_bp_single(ns, schema, f, x, route) for x in v]
    if f.card == "map":
        return {k: _bp_single(ns, schema, f, x, route) for k, x in v.items()}
    return _bp_single(ns, schema, f, v, route)


# ---------------------------------------------------------------------------
# betterproto projection (the observer)


def _bp_get_elem(schema: Schema, kind: str, x) -> Any:
    b = base_kind(kind)
    if b == "msg":
        return project_bp(schema, schema.msg(kind_arg(kind)), x)
    if b == "enum":
        return int(x)
    return x


def project_bp(schema: Schema, m: Msg, msg) -> Dict[str, Any]:
    import betterproto

    out: Dict[str, Any] = {}
    selected = {}
    for g in m.groups:
        selected[g] = betterproto.which_one_of(msg, g)[0]
    for f in m.fields:
        if f.card == "oneof":
            if selected[f.group] != f.name:
                continue
            out[f.name] = _bp_get_elem(schema, f.kind, getattr(msg, f.name))
            continue
        v = getattr(msg, f.name)
        if f.card == "repeated":
            if v:
                out[f.name] = [_bp_get_elem(schema, f.kind, x) for x in v]
        elif f.card == "map":
            if v:
                out[f.name] = {k: _bp_get_elem(schema, f.kind, x) for k, x in v.items()}
        elif f.card == "optional":
            if v is not None:
                out[f.name] = _bp_get_elem(schema, f.kind, v)
        elif f.base == "wrap":
            if v is not None:
                out[f.name] = v
        elif f.base == "msg":
            if betterproto.serialized_on_wire(v):
                out[f.name] = _bp_get_elem(schema, f.kind, v)
        else:
            out[f.name] = _bp_get_elem(schema, f.kind, v)
    return normalize(schema, m, out)


def type_errors(schema: Schema, m: Msg, msg, path: str = "") -> List[str]:
    """Every field value must be an instance of its declared Python type."""
    import betterproto

    errs: List[str] = []

    def chk(kind: str, x, where: str):
        b = base_kind(kind)
        if b == "wrap":
            b2 = kind_arg(kind)
            return chk(b2, x, where)
        ok = True
        if b in ("double", "float"):
            ok = isinstance(x, float) or (isinstance(x, int) and not isinstance(x, bool))
        elif b == "bool":
            ok = isinstance(x, bool)
        elif b == "string":
            ok = isinstance(x, str)
        elif b == "bytes":
            ok = isinstance(x, bytes)
        elif b == "enum":
            ok = isinstance(x, int) and not isinstance(x, bool)
        elif b in INT_RANGES:
            ok = isinstance(x, int) and not isinstance(x, bool)
        elif b == "timestamp":
            ok = isinstance(x, datetime)
        elif b == "duration":
            ok = isinstance(x, timedelta)
        elif b == "msg":
            sm = schema.msg(kind_arg(kind))
            if not isinstance(x, betterproto.Message) or type(x).__name__ != sm.name:
                ok = False
            else:
                errs.extend(type_errors(schema, sm, x, where + "."))
        if not ok:
            errs.append(f"{where}: {kind} holds {type(x).__name__}")

    raw = object.__getattribute__(msg, "__dict__")
    for f in m.fields:
        # raw slots only: reading through getattr would materialise lazy defaults
        # (and never terminate on recursive message types)
        v = raw.get(f.name, betterproto.PLACEHOLDER)
        if v is betterproto.PLACEHOLDER:
            continue
        where = path + f.name
        if f.card == "repeated":
            if not isinstance(v, list):
                errs.append(f"{where}: repeated holds {type(v).__name__}")
                continue
            for x in v:
                chk(f.kind, x, where + "[]")
        elif f.card == "map":
            if not isinstance(v, dict):
                errs.append(f"{where}: map holds {type(v).__name__}")
                continue
            for k, x in v.items():
                chk(f.key, k, where + "{k}")
                chk(f.kind, x, where + "{v}")
        else:
            if v is None and (f.card in ("optional", "oneof") or f.base == "wrap"):
                continue
            chk(f.kind, v, where)
    return errs


# ---------------------------------------------------------------------------
# JSON-able encoding of abstract values (replay files, evidence samples)


def to_jsonable(v: Any) -> Any:
    if isinstance(v, dict):
        if all(isinstance(k, str) and not k.startswith("$") for k in v):
            return {k: to_jsonable(x) for k, x in v.items()}
        return {"$m": [[to_jsonable(k), to_jsonable(x)] for k, x in v.items()]}
    if isinstance(v, (list, tuple)):
        return [to_jsonable(x) for x in v]
    if isinstance(v, bool) or v is None or isinstance(v, str):
        return v
    if isinstance(v, float):
        if math.isnan(v) or math.isinf(v):
            return {"$f": repr(v)}
        return v
    if isinstance(v, int):
        return int(v)
    if isinstance(v, bytes):
        return {"$b": v.hex()}
    if isinstance(v, datetime):
        return {"$t": (v - EPOCH) // US}
    if isinstance(v, timedelta):
        return {"$u": v // US}
    raise TypeError(type(v))


def from_jsonable(v: Any) -> Any:
    if isinstance(v, dict):
        if "$m" in v:
            return {from_jsonable(k): from_jsonable(x) for k, x in v["$m"]}
        if "$f" in v:
            return float(v["$f"])
        if "$b" in v:
            return bytes.fromhex(v["$b"])
        if "$t" in v:
            return EPOCH + v["$t"] * US
        if "$u" in v:
            return v["$u"] * US
        return {k: from_jsonable(x) for k, x in v.items()}
    if isinstance(v, list):
        return [from_jsonable(x) for x in v]
    return v


def vclass(kind: str, v: Any) -> str:
    """Equivalence class of one element value (used in finding signatures)."""
    b = base_kind(kind)
    if b == "wrap":
        return vclass(kind_arg(kind), v)
    if b in INT_RANGES:
        return "zero" if v == 0 else ("neg" if v < 0 else "pos")
    if b in ("float", "double"):
        if math.isnan(v):
            return "nan"
        if math.isinf(v):
            return "inf"
        if v == 0:
            return "negzero" if math.copysign(1.0, v) < 0 else "zero"
        return "finite"
    if b == "bool":
        return "true" if v else "false"
    if b in ("string", "bytes"):
        return "empty" if len(v) == 0 else "nonempty"
    if b == "enum":
        # defined-ness is decided by the caller's enum; sign is what matters here
        return "zero" if v == 0 else ("neg" if v < 0 else "pos")
    if b == "msg":
        return "empty" if not v else "nonempty"
    if b == "timestamp":
        if v == EPOCH:
            return "epoch"
        return "pre-epoch" if v < EPOCH else "post-epoch"
    if b == "duration":
        us = v // US
        if us == 0:
            return "zero"
        if us > 0:
            return "pos"
        return "neg-frac" if us % 10**6 else "neg-whole"
    return "?"


# ---------------------------------------------------------------------------
# complete internal state of a betterproto object (for explicit-state search)


def canon_internal(obj) -> Any:
    """Everything in a Message's __dict__, recursively, as a JSON-able value."""
    import betterproto

    if isinstance(obj, betterproto.Message):
        d = object.__getattribute__(obj, "__dict__")
        fields = {}
        for k in sorted(d):
            if k.startswith("_"):
                continue
            fields[k] = canon_internal(d[k])
        return {
            "cls": type(obj).__name__,
            "f": fields,
            "gc": dict(sorted((k, v) for k, v in d.get("_group_current", {}).items())),
            "sow": d.get("_serialized_on_wire"),
            "unk": bytes(d.get("_unknown_fields", b"")).hex(),
        }
    if obj is betterproto.PLACEHOLDER:
        return "<P>"
    if isinstance(obj, list):
        return [canon_internal(x) for x in obj]
    if isinstance(obj, dict):
        return {"$d": sorted(([canon(k), canon_internal(v)] for k, v in obj.items()), key=repr)}
    if isinstance(obj, betterproto.Enum):
        return {"$e": int(obj), "n": obj.name}
    return canon(obj)
