"""Spec-level re-encoder: every alternative encoding reachable from a canonical
serialisation with <= D rewrite operators.  Knows the *schema* (which numbers are
repeated-packable, oneof siblings, nested messages) but nothing about betterproto.

Whether a rewrite is *legal* (decodes to the same message) is decided by the
reference implementation, never assumed.
"""
from __future__ import annotations

import itertools
import struct
from typing import Dict, Iterator, List, Optional, Set, Tuple

from . import wire
from .schema import PACKABLE, Field, Msg, Schema, base_kind, kind_arg
from .wire import Rec

FIXED32_KINDS = ("fixed32", "sfixed32", "float")
FIXED64_KINDS = ("fixed64", "sfixed64", "double")


def elem_wt(kind: str) -> int:
    b = base_kind(kind)
    if b in FIXED32_KINDS:
        return wire.FIXED32
    if b in FIXED64_KINDS:
        return wire.FIXED64
    if b in ("string", "bytes", "msg", "timestamp", "duration", "wrap"):
        return wire.LEN
    return wire.VARINT


def split_packed(kind: str, payload: bytes) -> List[Rec]:
    """Packed payload -> list of element payload encodings (as bytes chunks)."""
    wt = elem_wt(kind)
    out: List[bytes] = []
    pos = 0
    while pos < len(payload):
        if wt == wire.FIXED32:
            out.append(payload[pos:pos + 4])
            pos += 4
        elif wt == wire.FIXED64:
            out.append(payload[pos:pos + 8])
            pos += 8
        else:
            _, p2 = wire.dec_varint(payload, pos)
            out.append(payload[pos:p2])
            pos = p2
    return out


def elem_rec(number: int, kind: str, chunk: bytes) -> Rec:
    wt = elem_wt(kind)
    if wt == wire.VARINT:
        val, _ = wire.dec_varint(chunk, 0)
        return Rec(number, wt, val, wire.tag(number, wt) + chunk)
    return Rec(number, wt, chunk, wire.tag(number, wt) + chunk)


UNKNOWN_NUMBERS = (7, 10)


def unknown_recs() -> List[Rec]:
    return [
        wire.make_rec(7, wire.VARINT, 1),
        wire.make_rec(8, wire.FIXED64, b"\x01" * 8),
        wire.make_rec(9, wire.LEN, b"\x0a\x01z"),
        wire.make_rec(10, wire.FIXED32, b"\x02" * 4),
    ]


def _perms(recs: List[Rec], max_full: int) -> Iterator[Tuple[str, List[Rec]]]:
    n = len(recs)
    if n <= 1:
        return
    if n <= max_full:
        for p in itertools.permutations(range(n)):
            if list(p) != list(range(n)):
                yield "permute", [recs[i] for i in p]
    else:
        idx = range(n - 1) if n <= 40 else sorted({0, 1, n // 2, n - 3, n - 2})
        for i in idx:
            r = list(recs)
            r[i], r[i + 1] = r[i + 1], r[i]
            yield "permute-adjacent", r
        yield "reverse", list(reversed(recs))


def _alt_payload(r: Rec):
    if r.wt == wire.VARINT:
        return (r.payload + 1) % 2**31
    if r.wt == wire.FIXED32:
        return bytes([r.payload[0] ^ 1]) + r.payload[1:]
    if r.wt == wire.FIXED64:
        return bytes([r.payload[0] ^ 1]) + r.payload[1:]
    return None


def _is_default_rec(r: Rec) -> bool:
    if r.wt == wire.VARINT:
        return r.payload == 0
    return not any(r.payload)


def _sel(recs):
    """(index, record) pairs the per-record operators are applied to: every record of an ordinary
    message; first, second, middle and last of a size-boundary value with dozens of records."""
    n = len(recs)
    if n <= 16:
        return list(enumerate(recs))
    return [(i, recs[i]) for i in sorted({0, 1, n // 2, n - 1})]


def _high_bit_variants(base: str, val: int):
    if base == "bool":
        if val:
            yield "bool-nonzero", 2
            yield "bool-nonzero", 1 << 32
        return
    if val >= 1 << 32:
        yield "no-sign-extension", val & 0xFFFFFFFF
    else:
        yield "high-bits-set", val | (1 << 32)
        yield "high-bits-set", val | (0x7FFFFFFF << 33)


def rewrites_once(schema: Schema, m: Optional[Msg], recs: List[Rec], max_full: int,
                  depth: int = 0) -> Iterator[Tuple[str, List[Rec]]]:
    """All single-operator rewrites of a record list for message type ``m``."""
    fields: Dict[int, Field] = {f.number: f for f in m.fields} if m else {}
    # 1. reorderings
    yield from _perms(recs, max_full)
    # 2. packed <-> unpacked, chunk splits, mixed
    for i, r in _sel(recs):
        f = fields.get(r.number)
        if f is None or f.card != "repeated" or f.base not in PACKABLE:
            continue
        if r.wt == wire.LEN:
            chunks = split_packed(f.kind, r.payload)
            unp = [elem_rec(r.number, f.kind, c) for c in chunks]
            yield "unpack", recs[:i] + unp + recs[i + 1:]
            n = len(chunks)
            # every split point for short lists; for long ones (size-boundary values) the points
            # next to the ends, the middle and the 127/128 boundary
            pts = list(range(0, n + 1)) if n <= 16 else sorted({0, 1, 2, 127, 128, n // 2, n - 2, n - 1, n})
            for a in pts:
                if 0 < a < n or (n >= 1 and a in (0, n)):
                    # 2-way split (a may be 0 or n: an empty chunk is legal)
                    parts = [b"".join(chunks[:a]), b"".join(chunks[a:])]
                    yield "split2", recs[:i] + [wire.make_rec(r.number, wire.LEN, p) for p in parts] + recs[i + 1:]
            for a in [p for p in pts if 1 <= p < n]:
                for b in [p for p in pts if a + 1 <= p < n]:
                    parts = [b"".join(chunks[:a]), b"".join(chunks[a:b]), b"".join(chunks[b:])]
                    yield "split3", recs[:i] + [wire.make_rec(r.number, wire.LEN, p) for p in parts] + recs[i + 1:]
            for a in [p for p in pts if 1 <= p < n]:
                # leading a elements unpacked, rest packed -- and the converse
                yield "mixed-unpacked-then-packed", (
                    recs[:i] + unp[:a] + [wire.make_rec(r.number, wire.LEN, b"".join(chunks[a:]))] + recs[i + 1:])
                yield "mixed-packed-then-unpacked", (
                    recs[:i] + [wire.make_rec(r.number, wire.LEN, b"".join(chunks[:a]))] + unp[a:] + recs[i + 1:])
    # 2b. non-minimal varints INSIDE a packed payload (each varint element in turn)
    for i, r in _sel(recs):
        f = fields.get(r.number)
        if f is None or f.card != "repeated" or f.base not in PACKABLE or r.wt != wire.LEN:
            continue
        if elem_wt(f.kind) != wire.VARINT:
            continue
        chunks = split_packed(f.kind, r.payload)
        for j, c in enumerate(chunks):
            if len(chunks) > 16 and j not in (0, 1, len(chunks) // 2, len(chunks) - 1):
                continue
            val, _ = wire.dec_varint(c, 0)
            for pad in sorted({len(c) + 1, len(c) + 2, 10}):
                if len(c) < pad <= 10:
                    padded = chunks[:j] + [wire.enc_varint(val, pad)] + chunks[j + 1:]
                    yield "pad-packed-element", recs[:i] + [wire.make_rec(r.number, wire.LEN, b"".join(padded))] + recs[i + 1:]
    # 3. non-minimal varints: tag, length, value of each record in turn
    for i, r in _sel(recs):
        tl = len(wire.tag(r.number, r.wt))
        for pad in sorted({tl + 1, tl + 2, 5, 10}):
            if pad > tl:
                yield f"pad-tag{'' if pad <= 5 else '>5'}", recs[:i] + [wire.make_rec(r.number, r.wt, r.payload, tag_pad=pad)] + recs[i + 1:]
        if r.wt == wire.LEN:
            ll = wire.varint_len(len(r.payload))
            for pad in sorted({ll + 1, ll + 2, 5, 10}):
                if pad > ll:
                    yield f"pad-len{'' if pad <= 5 else '>5'}", recs[:i] + [wire.make_rec(r.number, r.wt, r.payload, len_pad=pad)] + recs[i + 1:]
        if r.wt == wire.VARINT:
            vl = wire.varint_len(r.payload)
            for pad in sorted({vl + 1, vl + 2, 10}):
                if vl < pad <= 10:
                    yield "pad-value", recs[:i] + [wire.make_rec(r.number, r.wt, r.payload, val_pad=pad)] + recs[i + 1:]
    # 3b. 32-bit varint kinds carried in a 64-bit varint: decoders truncate to 32 bits, so a
    #     negative int32 / enum without its sign extension (5 bytes instead of 10) and a value with
    #     arbitrary bits above bit 31 denote the same field value (the reference decides)
    for i, r in _sel(recs):
        f = fields.get(r.number)
        if f is None or f.card == "map" or f.base not in ("int32", "uint32", "sint32", "enum", "bool"):
            continue
        if r.wt == wire.VARINT:
            for lab, alt in _high_bit_variants(f.base, r.payload):
                yield lab, recs[:i] + [wire.make_rec(r.number, wire.VARINT, alt)] + recs[i + 1:]
        elif r.wt == wire.LEN and f.card == "repeated":
            chunks = split_packed(f.kind, r.payload)
            for j, c in enumerate(chunks):
                if len(chunks) > 16 and j not in (0, 1, len(chunks) // 2, len(chunks) - 1):
                    continue
                val, _ = wire.dec_varint(c, 0)
                for lab, alt in _high_bit_variants(f.base, val):
                    padded = chunks[:j] + [wire.enc_varint(alt)] + chunks[j + 1:]
                    yield lab + "-packed", recs[:i] + [wire.make_rec(r.number, wire.LEN, b"".join(padded))] + recs[i + 1:]
    # 4. duplicated singular scalar with a different earlier value (last wins)
    for i, r in _sel(recs):
        f = fields.get(r.number)
        if f is None or f.card in ("repeated", "map"):
            continue
        if f.base in ("msg", "timestamp", "duration", "wrap"):
            continue  # duplicated message fields merge; not in the property's list
        alt = _alt_payload(r)
        if alt is not None:
            yield "dup-singular", recs[:i] + [wire.make_rec(r.number, r.wt, alt)] + recs[i:]
        elif r.wt == wire.LEN:
            yield "dup-singular", recs[:i] + [wire.make_rec(r.number, r.wt, b"zz")] + recs[i:]
    # 5. several members of a oneof on the wire, last one wins
    if m:
        for g, members in m.groups.items():
            nums = {f.number: f for f in members}
            for i, r in _sel(recs):
                if r.number not in nums:
                    continue
                for sib in members:
                    if sib.number == r.number:
                        continue
                    sr = _sibling_rec(sib)
                    if sr is not None:
                        yield "oneof-earlier-sibling", recs[:i] + [sr] + recs[i:]
    # 6. unknown record of each wire type at each gap
    gaps = range(len(recs) + 1) if len(recs) <= 40 else sorted({0, 1, len(recs) // 2, len(recs) - 1, len(recs)})
    for u in unknown_recs():
        for gap in gaps:
            yield "unknown-interleaved", recs[:gap] + [u] + recs[gap:]
    # 7. rewrites inside nested messages / map entries (one level per step)
    if depth < 2:
        for i, r in _sel(recs):
            f = fields.get(r.number)
            if f is None or r.wt != wire.LEN:
                continue
            inner_m: Optional[Msg] = None
            if f.card == "map":
                inner_m = Msg("entry", (Field("key", 1, f.key), Field("value", 2, f.kind)))
            elif f.base == "msg":
                inner_m = schema.msg(kind_arg(f.kind))
            elif f.base in ("timestamp", "duration"):
                inner_m = Msg("ts", (Field("seconds", 1, "int64"), Field("nanos", 2, "int32")))
            elif f.base == "wrap":
                inner_m = Msg("w", (Field("value", 1, kind_arg(f.kind)),))
            if inner_m is None:
                continue
            try:
                inner = wire.tokenize(r.payload)
            except wire.WireError:
                continue
            if f.card == "map" or f.base in ("timestamp", "duration", "wrap"):
                # the inner message has implicit-presence fields only: a field holding its default
                # may be left out, and a missing field may be spelled out with its default
                for j, ir in enumerate(inner):
                    if _is_default_rec(ir) and ir.number in (1, 2):
                        yield "nested:drop-default-field", recs[:i] + [wire.make_rec(r.number, wire.LEN, wire.join(inner[:j] + inner[j + 1:]))] + recs[i + 1:]
                present = {ir.number for ir in inner}
                for g in inner_m.fields:
                    if g.number not in present and g.base != "msg" and g.base not in ("timestamp", "duration", "wrap"):
                        wt_g = elem_wt(g.kind)
                        dflt = 0 if wt_g == wire.VARINT else b"" if wt_g == wire.LEN else b"\0" * (4 if wt_g == wire.FIXED32 else 8)
                        add = wire.make_rec(g.number, wt_g, dflt)
                        yield "nested:explicit-default-field", recs[:i] + [wire.make_rec(r.number, wire.LEN, wire.join([add] + inner))] + recs[i + 1:]
            for name, rw in rewrites_once(schema, inner_m, inner, max_full, depth + 1):
                if name.startswith("unknown") and f.card == "map":
                    pass
                yield "nested:" + name, recs[:i] + [wire.make_rec(r.number, wire.LEN, wire.join(rw))] + recs[i + 1:]


def _sibling_rec(f: Field) -> Optional[Rec]:
    wt = elem_wt(f.kind)
    if wt == wire.VARINT:
        return wire.make_rec(f.number, wt, 7 if f.base != "bool" else 1)
    if wt == wire.FIXED32:
        return wire.make_rec(f.number, wt, struct.pack("<f", 2.5) if f.base == "float" else b"\x07\0\0\0")
    if wt == wire.FIXED64:
        return wire.make_rec(f.number, wt, struct.pack("<d", 2.5) if f.base == "double" else b"\x07" + b"\0" * 7)
    if f.base in ("string", "bytes"):
        return wire.make_rec(f.number, wt, b"sib")
    if f.base == "msg":
        return wire.make_rec(f.number, wt, b"")
    return None


def reencodings(schema: Schema, m: Msg, data: bytes, depth: int, max_full: int,
                cap: int = 200000) -> Iterator[Tuple[str, bytes]]:
    """All distinct encodings reachable with 1..depth operators (BFS, deduplicated)."""
    start = wire.tokenize(data)
    seen: Set[bytes] = {data}
    frontier: List[Tuple[str, List[Rec]]] = [("", start)]
    for d in range(depth):
        nxt: List[Tuple[str, List[Rec]]] = []
        for label, recs in frontier:
            for name, rw in rewrites_once(schema, m, recs, max_full):
                b = wire.join(rw)
                if b in seen:
                    continue
                seen.add(b)
                lab = f"{label}+{name}" if label else name
                yield lab, b
                if d + 1 < depth and len(rw) <= 40 and len(b) <= 4096:
                    # (size-boundary values are re-encoded with ONE operator only: a second layer over
                    # thousands of records adds cost, not shapes)
                    nxt.append((lab, rw))
                if len(seen) > cap:
                    return
        frontier = nxt
