"""E3: spec-level protobuf wire model (deliberately boring).

Records are ``Rec(number, wt, payload, raw)`` where payload is
  wt 0 -> int (unsigned 64-bit value), wt 1 -> 8 bytes, wt 2 -> bytes, wt 5 -> 4 bytes.
Written from the encoding spec only; never imports betterproto.
"""
from __future__ import annotations

from dataclasses import dataclass
from typing import Any, Iterable, List, Optional, Tuple

VARINT, FIXED64, LEN, SGROUP, EGROUP, FIXED32 = 0, 1, 2, 3, 4, 5
MAX_FIELD = 2**29 - 1


class WireError(Exception):
    pass


def enc_varint(n: int, pad_to: int = 0) -> bytes:
    """Canonical base-128 varint of n in [0, 2**64); negatives as two's complement.

    pad_to > 0 produces a non-minimal (but legal, <= 10 bytes) encoding of that length.
    """
    if n < 0:
        if n < -(2**63):
            raise WireError("below int64")
        n += 2**64
    if n >= 2**64:
        raise WireError("above uint64")
    out = bytearray()
    while True:
        b = n & 0x7F
        n >>= 7
        if n:
            out.append(b | 0x80)
        else:
            out.append(b)
            break
    if pad_to and pad_to > len(out):
        if pad_to > 10:
            raise WireError("varint longer than 10 bytes")
        out[-1] |= 0x80
        while len(out) < pad_to - 1:
            out.append(0x80)
        out.append(0x00)
    return bytes(out)


def varint_len(n: int) -> int:
    return len(enc_varint(n))


def dec_varint(buf: bytes, pos: int = 0) -> Tuple[int, int]:
    """Return (value, new_pos).  Raises WireError on truncation or > 10 bytes."""
    result = 0
    shift = 0
    start = pos
    while True:
        if pos - start >= 10:
            raise WireError("varint too long")
        if pos >= len(buf):
            raise WireError("truncated varint")
        b = buf[pos]
        pos += 1
        result |= (b & 0x7F) << shift
        if not b & 0x80:
            return result & (2**64 - 1), pos
        shift += 7


def zigzag(n: int, bits: int = 64) -> int:
    return ((n << 1) ^ (n >> (bits - 1))) & (2**bits - 1)


def unzigzag(n: int) -> int:
    return (n >> 1) ^ -(n & 1)


@dataclass(frozen=True)
class Rec:
    number: int
    wt: int
    payload: Any
    raw: bytes

    def with_number(self, number: int) -> "Rec":
        return make_rec(number, self.wt, self.payload)


def tag(number: int, wt: int, pad_to: int = 0) -> bytes:
    return enc_varint((number << 3) | wt, pad_to)


def make_rec(number: int, wt: int, payload: Any, tag_pad: int = 0, len_pad: int = 0,
             val_pad: int = 0) -> Rec:
    t = tag(number, wt, tag_pad)
    if wt == VARINT:
        raw = t + enc_varint(payload, val_pad)
    elif wt == FIXED64:
        assert len(payload) == 8
        raw = t + payload
    elif wt == FIXED32:
        assert len(payload) == 4
        raw = t + payload
    elif wt == LEN:
        raw = t + enc_varint(len(payload), len_pad) + payload
    elif wt in (SGROUP, EGROUP):
        raw = t
    else:
        raise WireError(f"wire type {wt}")
    return Rec(number, wt, payload, raw)


def tokenize(buf: bytes, allow_groups: bool = True) -> List[Rec]:
    """Split a message body into records.  Raises WireError if malformed.

    Groups (wire types 3/4) are returned as bare tag records; nesting is validated by
    ``check_groups``.
    """
    out: List[Rec] = []
    pos = 0
    n = len(buf)
    while pos < n:
        start = pos
        key, pos = dec_varint(buf, pos)
        number, wt = key >> 3, key & 7
        if number == 0:
            raise WireError("field number 0")
        if number > MAX_FIELD:
            raise WireError("field number too large")
        if wt == VARINT:
            val, pos = dec_varint(buf, pos)
            payload: Any = val
        elif wt == FIXED64:
            if pos + 8 > n:
                raise WireError("truncated fixed64")
            payload = buf[pos:pos + 8]
            pos += 8
        elif wt == FIXED32:
            if pos + 4 > n:
                raise WireError("truncated fixed32")
            payload = buf[pos:pos + 4]
            pos += 4
        elif wt == LEN:
            ln, pos = dec_varint(buf, pos)
            if pos + ln > n:
                raise WireError("truncated length-delimited payload")
            payload = buf[pos:pos + ln]
            pos += ln
        elif wt in (SGROUP, EGROUP):
            if not allow_groups:
                raise WireError("group")
            payload = None
        else:
            raise WireError(f"invalid wire type {wt}")
        out.append(Rec(number, wt, payload, buf[start:pos]))
    return out


def check_groups(recs: Iterable[Rec]) -> None:
    stack: List[int] = []
    for r in recs:
        if r.wt == SGROUP:
            stack.append(r.number)
        elif r.wt == EGROUP:
            if not stack or stack.pop() != r.number:
                raise WireError("unbalanced group")
    if stack:
        raise WireError("unterminated group")


def well_formed(buf: bytes) -> bool:
    try:
        recs = tokenize(buf)
        check_groups(recs)
        return True
    except WireError:
        return False


def join(recs: Iterable[Rec]) -> bytes:
    return b"".join(r.raw for r in recs)


def delimited(body: bytes) -> bytes:
    return enc_varint(len(body)) + body


def split_delimited(stream: bytes) -> List[bytes]:
    out = []
    pos = 0
    while pos < len(stream):
        ln, pos = dec_varint(stream, pos)
        if pos + ln > len(stream):
            raise WireError("truncated delimited message")
        out.append(stream[pos:pos + ln])
        pos += ln
    return out
