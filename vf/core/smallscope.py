"""E2: bounded-exhaustive evaluation of an oracle over the whole universe.

Every (type, abstract value, route) case is evaluated on the real implementation.
A failing case is *explained* (not reported again) when one of its one-step
restrictions (single field of a multi-field value, single element of a container)
fails the same oracle: that restriction is itself a case of the universe and reports
itself.  What remains are minimal witnesses, which get narrow signatures
[oracle, card, base kind, kind arg, value class, key kind].
"""
from __future__ import annotations

import hashlib
import json
from typing import Any, Callable, Dict, List, Optional, Sequence, Tuple

from . import absval as av
from .runner import Ctx, Tally, Violation, merge_tallies, pmap_shards
from .schema import Field, Msg, base_kind, kind_arg
from .universe import TypeCase, Universe

Fail = Tuple[str, str]  # (oracle name, human detail)
OracleFn = Callable[[Universe, TypeCase, Dict[str, Any], str, Tally], List[Fail]]

_STATE: Dict[str, Any] = {}


def restrictions(m: Msg, aval: Dict[str, Any]) -> List[Dict[str, Any]]:
    keys = list(aval)
    if len(keys) > 1:
        return [{k: aval[k]} for k in keys]
    if len(keys) == 1:
        k = keys[0]
        f = m.field(k)
        v = aval[k]
        if f.card == "repeated" and len(v) > 1:
            out, seen = [], set()
            for x in v:
                c = json.dumps(av.canon(x))
                if c not in seen:
                    seen.add(c)
                    out.append({k: [x]})
            return out
        if f.card == "map" and len(v) > 1:
            items = list(v.items())
            if len(items) > 8:  # large maps: first, second and last entry are tried as explanations
                items = items[:2] + items[-1:]
            return [{k: {kk: x}} for kk, x in items]
    return []


def signature(u: Universe, oracle: str, m: Msg, aval: Dict[str, Any]) -> List[str]:
    keys = list(aval)
    if not keys:
        return [oracle, "empty", m.name]
    if len(keys) > 1:
        labs = sorted(f"{m.field(k).card}:{m.field(k).kind}" for k in keys)
        return [oracle, "combo"] + labs
    f = m.field(keys[0])
    v = aval[keys[0]]
    extra = ""
    if f.card == "repeated":
        vc = "+".join(sorted({av.vclass(f.kind, x) for x in v})) if v else "none"
        if len(v) > 1:
            extra = f"n{len(v)}"
    elif f.card == "map":
        if v:
            vc = "+".join(sorted({av.vclass(f.kind, x) for x in v.values()}))
            kc = "+".join(sorted({av.vclass(f.key, k) for k in v}))
            extra = f"key:{f.key}:{kc}" + (f":n{len(v)}" if len(v) > 1 else "")
        else:
            vc = "none"
    else:
        vc = av.vclass(f.kind, v)
    if f.base == "enum":
        e = u.schema.enum(kind_arg(f.kind))
        elems = v if f.card == "repeated" else (list(v.values()) if f.card == "map" else [v])
        if any(int(x) not in e.numbers for x in elems):
            vc += ":undefined"
    arg = kind_arg(f.kind)
    if f.proto_name is not None:
        arg = "name:" + f.proto_name  # named-field family: the field NAME is what is under test
    sig = [oracle, f.card, f.base, arg, vc]
    if extra:
        sig.append(extra)
    return sig


def encode_case(tier: str, tc: TypeCase, aval, route: str) -> dict:
    return {"universe": tier, "type": tc.msg.name, "aval": av.to_jsonable(aval),
            "route": route}


class CaseTimeout(BaseException):
    pass


def _on_alarm(*_a):
    raise CaseTimeout()


def run_guarded(fn, seconds: float = 5.0):
    """Call fn() under a CPU-time guard (ITIMER_PROF: user+system time of THIS process, so the
    verdict does not depend on how loaded the machine is; the code under guard is synchronous
    and CPU-bound, a hang is a loop).  Returns (status, result) with status in
    ok | raise | hang | memory.  Safe against the signal firing late (a long C call
    is only interrupted when it returns): the timer is disarmed inside the guarded
    region, so a pending signal can only surface there."""
    import signal

    old = signal.signal(signal.SIGPROF, _on_alarm)
    try:
        try:
            try:
                signal.setitimer(signal.ITIMER_PROF, seconds)
                res = fn()
            finally:
                signal.setitimer(signal.ITIMER_PROF, 0)
            return ("ok", res)
        except CaseTimeout:
            return ("hang", None)
        except MemoryError:
            return ("memory", None)
        except Exception as e:
            return ("raise", e)
    finally:
        signal.signal(signal.SIGPROF, old)


def guarded(oracle: OracleFn, u, tc, aval, route, tally, seconds: float = 5.0) -> List[Fail]:
    """Run the oracle under a CPU-time guard and an address-space limit."""
    status, res = run_guarded(lambda: oracle(u, tc, aval, route, tally), seconds)
    if status == "ok":
        return res
    if status == "hang":
        return [("hang", f"no result within {seconds}s of CPU time")]
    if status == "memory":
        return [("memory", "MemoryError (address-space guard)")]
    from .runner import HarnessError
    if isinstance(res, HarnessError):
        raise res
    # an exception escaping the oracle comes from the code under test (the oracle's own
    # bookkeeping is plain data handling): report it, do not crash the check
    return [("raised", f"{type(res).__name__}: {res}"[:300])]


def limit_memory(gb: float = 6.0) -> None:
    import resource

    lim = int(gb * 2**30)
    try:
        resource.setrlimit(resource.RLIMIT_AS, (lim, lim))
    except (ValueError, OSError):
        pass


def _eval_case(u: Universe, oracle: OracleFn, tc: TypeCase, aval, route: str,
               tally: Tally, depth: int = 0) -> List[Violation]:
    """Evaluate one case; return violations for *minimal* witnesses only.

    If a one-step restriction of the value fails the same oracle, the restriction is
    evaluated (recursively) and reports itself instead of this case.
    """
    fails = guarded(oracle, u, tc, aval, route, tally)
    if not fails:
        return []
    out: List[Violation] = []
    by_oracle: Dict[str, str] = {}
    for name, detail in fails:
        by_oracle.setdefault(name, detail)
    subs = restrictions(tc.msg, aval) if depth < 4 else []
    sub_viol: Dict[str, List[Violation]] = {}
    if subs:
        scratch = Tally()
        for r in subs:
            for v in _eval_case(u, oracle, tc, r, route, scratch, depth + 1):
                sub_viol.setdefault(v.signature[0], []).append(v)
    for name, detail in by_oracle.items():
        if name in sub_viol:
            tally.inc("failures_explained_by_restriction")
            out.extend(sub_viol[name])
            continue
        sig = signature(u, name, tc.msg, aval)
        out.append(Violation(sig, f"{tc.msg.name} route={route} aval={av.to_jsonable(aval)!r}: {detail}"[:600],
                             encode_case(u.tier, tc, aval, route)))
    return out


def _shard(shard: int, nshards: int, extra) -> Tally:
    u: Universe = _STATE["u"]
    oracle: OracleFn = _STATE["oracle"]
    routes_fn = _STATE["routes"]
    seed = _STATE["seed"]
    tally = Tally()
    limit_memory()
    i = -1
    for ti, tc, vi, aval in u.cases():
        i += 1
        if (i + seed) % nshards != shard:
            continue
        for route in routes_fn(tc, aval):
            tally.inc("cases")
            for v in _eval_case(u, oracle, tc, aval, route, tally):
                tally.violate(v)
            if i % 997 == 0:
                tally.sample({"type": tc.msg.name, "aval": av.to_jsonable(aval), "route": route}, 2)
    return tally


def run_universe(ctx: Ctx, u: Universe, oracle: OracleFn,
                 routes_fn: Callable[[TypeCase, Dict[str, Any]], Sequence[str]],
                 nshards: int = 64) -> Tally:
    _STATE.update(u=u, oracle=oracle, routes=routes_fn, seed=ctx.seed)
    limit_memory()  # parent too: witnesses are replayed here and must behave as in the workers
    tallies = pmap_shards(_shard, nshards)
    t = merge_tallies(tallies)
    for vj in t.violations:
        ctx.add(Violation.from_json(vj))
    return t


def replay_case(oracle: OracleFn, case: dict, get_universe) -> List[Violation]:
    limit_memory()
    u = get_universe(case["universe"])
    tc = next(t for t in u.types if t.msg.name == case["type"])
    aval = av.from_jsonable(case["aval"])
    return _eval_case(u, oracle, tc, aval, case["route"], Tally())


def hkey(*parts) -> int:
    h = hashlib.blake2b(digest_size=8)
    for p in parts:
        h.update(p if isinstance(p, bytes) else str(p).encode())
        h.update(b"\x1f")
    return int.from_bytes(h.digest(), "little")
