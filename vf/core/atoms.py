"""Grammar-based schema generator for the plugin checks (C03, C18): a catalogue of
*structure atoms* (names, nesting, enum shapes, recursion, well-known types, comments,
options, services).  Schemas are built from 1 atom, and from every unordered pair of
atoms, under package paths of depth 0..3.  Field kinds x cardinalities (and all their
pairs) are covered separately by pushing the small-scope universe through the plugin.
"""
from __future__ import annotations

from dataclasses import dataclass, field
from typing import Dict, List, Tuple

PACKAGES = ["", "a", "a.b", "a.b.c"]


@dataclass(frozen=True)
class Atom:
    name: str
    defs: str = ""                       # top-level definitions
    fields: Tuple[str, ...] = ()         # 'TYPE NAME' entries added to message Host
    imports: Tuple[str, ...] = ()
    body: str = ""                       # raw text inside Host (oneofs, nested types ...); use {n}
    nfields_body: int = 0                # field numbers consumed by body
    service: str = ""


def _kw_fields(names: List[str]) -> Tuple[str, ...]:
    return tuple(f"int32 {n}" for n in names)


ATOMS: List[Atom] = [
    Atom("plain", fields=("int32 count", "string title")),
    Atom("enum_negative", defs="enum Neg { NEG_ZERO = 0; NEG_MINUS = -1; NEG_MIN = -2147483648; NEG_MAX = 2147483647; }",
         fields=("Neg neg", "repeated Neg negs")),
    Atom("enum_alias", defs="enum Al { option allow_alias = true; AL_A = 0; AL_B = 1; AL_C = 1; }", fields=("Al al",)),
    Atom("enum_prefixed", defs="enum Kind { KIND_UNSPECIFIED = 0; KIND_ONE = 1; KIND_TWO_WORDS = 2; }", fields=("Kind kind",)),
    Atom("enum_keyword_members", defs="enum Kw { KW_ZERO = 0; from = 1; class = 2; False = 3; import = 4; }", fields=("Kw kw",)),
    Atom("enum_lowercase", defs="enum lower_enum { le_zero = 0; le_one = 1; }", fields=("lower_enum le",)),
    Atom("enum_digit_members", defs="enum Ver { VER_0 = 0; VER_1_2 = 1; VER_10 = 2; }", fields=("Ver ver",)),
    Atom("enum_name_in_middle", defs="enum Unit { UNIT_X = 0; MY_UNIT_Y = 1; }", fields=("Unit unit",)),
    Atom("nested_1", defs="message Outer1 { message Inner { int32 x = 1; } Inner inner = 1; }",
         fields=("Outer1 o1", "Outer1.Inner o1i")),
    Atom("nested_3", defs=(
        "message Outer3 { message Mid { message Leaf { int32 x = 1; enum LeafKind { LEAF_KIND_A = 0; LEAF_KIND_B = 1; } LeafKind k = 2; }\n"
        "  Leaf leaf = 1; repeated Leaf leaves = 2; map<string, Leaf> by_name = 3; }\n"
        "  Mid mid = 1; Mid.Leaf deep = 2; Mid.Leaf.LeafKind kind = 3; }"),
         fields=("Outer3 o3", "Outer3.Mid o3m", "Outer3.Mid.Leaf o3l", "Outer3.Mid.Leaf.LeafKind o3k")),
    Atom("nested_same_leaf_names", defs="message P1 { message Item { int32 a = 1; } Item item = 1; }\nmessage P2 { message Item { string b = 1; } Item item = 1; }",
         fields=("P1.Item i1", "P2.Item i2")),
    Atom("recursive_self", defs="message Node { Node next = 1; repeated Node kids = 2; map<string, Node> by = 3; int32 v = 4; }",
         fields=("Node node",)),
    Atom("recursive_mutual", defs="message Ping { Pong pong = 1; int32 n = 2; }\nmessage Pong { Ping ping = 1; repeated Ping pings = 2; }",
         fields=("Ping ping", "Pong pong")),
    Atom("wkt_time", imports=("google/protobuf/timestamp.proto", "google/protobuf/duration.proto"),
         fields=("google.protobuf.Timestamp ts", "google.protobuf.Duration dur", "repeated google.protobuf.Timestamp tss",
                 "map<string, google.protobuf.Duration> durs")),
    Atom("wkt_wrappers", imports=("google/protobuf/wrappers.proto",),
         fields=tuple(f"google.protobuf.{w} w_{w.lower()}" for w in
                      ("DoubleValue", "FloatValue", "Int32Value", "Int64Value", "UInt32Value", "UInt64Value",
                       "BoolValue", "StringValue", "BytesValue")) + ("repeated google.protobuf.Int32Value w_rep",)),
    Atom("wkt_misc", imports=("google/protobuf/empty.proto", "google/protobuf/struct.proto", "google/protobuf/any.proto",
                              "google/protobuf/field_mask.proto"),
         fields=("google.protobuf.Empty empty", "google.protobuf.Struct st", "google.protobuf.Value val",
                 "google.protobuf.ListValue lv", "google.protobuf.Any any", "google.protobuf.FieldMask mask",
                 "google.protobuf.NullValue nul")),
    Atom("field_keywords", fields=_kw_fields(["from", "class", "import", "global", "lambda", "None", "True", "async", "await", "pass"])),
    Atom("field_builtins", fields=_kw_fields(["list", "dict", "str", "int", "float", "bool", "bytes", "type", "id", "object", "property"])),
    # a field named like its own python type FOLLOWED by repeated / optional fields of that type
    Atom("field_builtin_then_repeated", fields=("int32 int", "repeated int32 history", "optional int32 maybe_int",
                                                "string str", "repeated string names", "optional string maybe_str",
                                                "bytes bytes", "repeated bytes blobs", "double float", "repeated double samples",
                                                "bool bool", "repeated bool flags")),
    # Timestamp / Duration reachable ONLY through proto3-optional fields of the package
    Atom("optional_wkt_only", imports=("google/protobuf/timestamp.proto", "google/protobuf/duration.proto"),
         fields=("optional google.protobuf.Timestamp opt_ts", "optional google.protobuf.Duration opt_dur")),
    # proto3-optional fields whose type is a wrapper: optional cardinality AND wraps on one field
    Atom("optional_wrappers", imports=("google/protobuf/wrappers.proto",),
         fields=tuple(f"optional google.protobuf.{w} ow_{w.lower()}" for w in
                      ("DoubleValue", "Int32Value", "UInt64Value", "BoolValue", "StringValue", "BytesValue"))
         + ("google.protobuf.Int32Value plain_w",)),
    # oneof NAMES that re-casing would alter, and two oneofs that differ only in spelling
    Atom("oneof_names", body=(
        "  oneof deliveryMethod {{ int32 dm_a = {n0}; string dm_b = {n1}; }}\n"
        "  oneof HTTPMode {{ int32 fr_a = {n2}; bool fr_b = {n3}; }}\n"
        "  oneof srcAddr {{ int32 sa_a = {n4}; }}\n"
        "  oneof src_addr {{ int32 sb_a = {n5}; string sb_b = {n6}; }}\n"), nfields_body=7),
    Atom("field_soft_keywords", fields=_kw_fields(["match", "case", "_", "self", "cls"])),
    Atom("field_digit_names", fields=_kw_fields(["a_1", "x_y_z", "a1b2", "field_1_name", "address_line_1", "v2", "i_18_n"])),
    Atom("field_camel_names", fields=_kw_fields(["fooBar", "FooBaz", "FOO_QUX", "HTTPStatus", "userID", "a", "B"])),
    Atom("field_trailing_underscore", fields=_kw_fields(["name_", "_lead", "value__x"])),
    Atom("msg_lowercase", defs="message lower_case_msg { int32 a = 1; }", fields=("lower_case_msg lcm", "repeated lower_case_msg lcms")),
    Atom("msg_uppercase", defs="message UPPERCASE { int32 a = 1; }\nmessage HTTPServer2 { int32 a = 1; }", fields=("UPPERCASE up", "HTTPServer2 h2")),
    Atom("msg_typing_names", defs="message List { int32 a = 1; }\nmessage Optional { int32 a = 1; }\nmessage Dict { int32 a = 1; }",
         fields=("List lst", "repeated Optional opts", "map<string, Dict> dicts")),
    Atom("msg_builtin_names", defs="message int { int32 a = 1; }\nmessage Type { int32 a = 1; }\nmessage Message { int32 a = 1; }",
         fields=("int i", "Type t", "Message m", "repeated int ints")),
    Atom("msg_keyword_names", defs="message None { int32 a = 1; }\nmessage True { int32 a = 1; }", fields=("None none_msg", "True true_msg")),
    Atom("field_named_like_type", defs="message Other { int32 a = 1; }\nenum Shade { SHADE_X = 0; }",
         fields=("Other other", "Shade shade", "repeated Other others")),
    Atom("msg_datetime_names", defs="message Mydatetime { int32 a = 1; }\nmessage timedelta_box { int32 a = 1; }",
         fields=("Mydatetime md", "timedelta_box tb")),
    Atom("comments", defs=(
        "// Leading comment of Doc.\n// Second line with \"quotes\" and a backslash \\\\ here.\nmessage Doc {\n"
        "  // leading field comment\n  int32 a = 1; // trailing field comment\n\n  // detached\n\n  // attached to b\n  string b = 2;\n"
        "  /* block comment\n   * over lines */\n  bool c = 3;\n}\n"
        "// Enum doc\nenum DocKind {\n  // value doc\n  DOC_KIND_A = 0; // trailing\n  DOC_KIND_B = 1;\n}"),
         fields=("Doc doc", "DocKind dk")),
    Atom("comment_tricky", defs=(
        "// ends with a backslash \\\\\nmessage Tricky1 { int32 a = 1; }\n"
        "// has '''single''' and 'quotes'\nmessage Tricky2 {\n  // a very long comment line that goes on and on and on and on and on and on and on and on and on and on past eighty columns\n  int32 a = 1;\n}\n"
        "// unicode: é ☃ 😀\nmessage Tricky3 { int32 a = 1; }"),
         fields=("Tricky1 t1", "Tricky2 t2", "Tricky3 t3")),
    Atom("comment_triple_quote", defs="// contains \"\"\" a triple quote\nmessage Tq { int32 a = 1; }", fields=("Tq tq",)),
    Atom("deprecated", defs="message OldMsg { option deprecated = true; int32 a = 1; }\nmessage HalfOld { int32 keep = 1; int32 gone = 2 [deprecated = true]; }",
         fields=("OldMsg old", "HalfOld half")),
    Atom("deprecated_renamed", defs=("message DepNames { int32 displayName = 1 [deprecated = true]; string from = 2 [deprecated = true]; "
                                     "bool Plain_Old = 3 [deprecated = true]; int32 keep = 4; repeated int32 manyOld = 5 [deprecated = true]; }"),
         fields=("DepNames dep_names",)),
    # hand-written nested <Field>Entry messages used by REPEATED fields (ordered key/value lists):
    # they look like the synthetic map entry types but are not maps
    Atom("entry_lookalike", defs=("message Opt {\n  message OptionsEntry { string key = 1; string value = 2; }\n"
                                  "  repeated OptionsEntry options = 1;\n"
                                  "  message TagsEntry { string key = 1; int32 value = 2; }\n  repeated TagsEntry tags = 2;\n"
                                  "  map<string, int32> real = 3;\n}"),
         fields=("Opt opt",)),
    # a recursive message that also has a oneof (validators that touch every field of such a class)
    Atom("recursive_with_oneof", defs="message RNode {\n  oneof value { int32 i = 1; string s = 2; }\n  RNode next = 3;\n  repeated RNode kids = 4;\n}",
         fields=("RNode rnode",)),
    Atom("oneof_mixed", body=(
        "  oneof choice {{ int32 c_int = {n0}; string c_str = {n1}; Host c_self = {n2}; bool c_flag = {n3}; }}\n"
        "  oneof other_choice {{ bytes oc_bytes = {n4}; double oc_double = {n5}; }}\n"), nfields_body=6),
    Atom("optional_mixed", fields=("optional int32 opt_i", "optional string opt_s", "optional bool opt_b", "optional Host opt_self",
                                   "optional bytes opt_y", "optional double opt_d")),
    Atom("maps_mixed", fields=("map<int32, string> m_is", "map<bool, int64> m_bl", "map<string, Host> m_self",
                               "map<uint64, bytes> m_ub", "map<sfixed32, double> m_fd", "map<string, int32> M_upper")),
    Atom("map_field_names", fields=("map<string, int32> my_map", "map<string, int32> MyMap2", "map<string, int32> a_b_c",
                                    "map<string, int32> entry")),
    Atom("packed_mixed", fields=("repeated int32 r_i", "repeated sint64 r_s", "repeated fixed32 r_f", "repeated double r_d",
                                 "repeated bool r_b", "repeated string r_str", "repeated bytes r_y")),
    Atom("large_field_numbers", body="  int32 big_a = 536870911;\n  string big_b = 100000;\n  bool big_c = 18999;\n  bool big_d = 20000;\n"),
    Atom("empty_message", defs="message Nothing {}", fields=("Nothing nothing", "repeated Nothing nothings")),
    Atom("service_unary", defs="message SReq { int32 q = 1; }\nmessage SResp { int32 r = 1; }",
         service="service Svc { rpc DoThing (SReq) returns (SResp); rpc do_other (SReq) returns (SResp); }"),
    Atom("service_streams", defs="message TReq { int32 q = 1; }\nmessage TResp { int32 r = 1; }",
         service=("service Streamer { rpc UU (TReq) returns (TResp); rpc US (TReq) returns (stream TResp);\n"
                  "  rpc SU (stream TReq) returns (TResp); rpc SS (stream TReq) returns (stream TResp); }")),
    Atom("service_wkt", imports=("google/protobuf/empty.proto", "google/protobuf/wrappers.proto"),
         service=("service Wk { rpc Ping (google.protobuf.Empty) returns (google.protobuf.Empty);\n"
                  "  rpc Get2Fa (google.protobuf.StringValue) returns (stream google.protobuf.Int32Value); }")),
    Atom("service_names", defs="message NReq { int32 q = 1; }",
         service="// service doc\nservice lower_svc { // method doc\n rpc DOThing (NReq) returns (NReq); rpc Get2Fa (NReq) returns (NReq); rpc from (NReq) returns (NReq); }\nservice EmptySvc {}"),
]
ATOM_BY_NAME = {a.name: a for a in ATOMS}


def render(atoms: List[Atom], package: str) -> str:
    out = ['syntax = "proto3";']
    if package:
        out.append(f"package {package};")
    imports = []
    for a in atoms:
        for i in a.imports:
            if i not in imports:
                imports.append(i)
    out += [f'import "{i}";' for i in imports]
    for a in atoms:
        if a.defs:
            out.append(a.defs)
    out.append("message Host {")
    n = 1
    for a in atoms:
        if a.body:
            nums = {f"n{i}": n + i for i in range(a.nfields_body)}
            out.append(a.body.format(**nums) if a.nfields_body else a.body)
            n += a.nfields_body
        for f in a.fields:
            while n in (18999, 20000, 100000, 536870911) or 19000 <= n <= 19999:
                n += 1
            out.append(f"  {f} = {n};")
            n += 1
    out.append("}")
    for a in atoms:
        if a.service:
            out.append(a.service)
    return "\n".join(out) + "\n"


# A multi-file, multi-package program: several files per package (enums only / messages /
# services), a package without messages, a descendant package referring upwards, >1 service,
# >3 methods, optional message from an ancestor package.
# pairs of atoms that declare the same field names in Host and cannot be combined in one schema
INCOMPATIBLE = {frozenset(("field_builtins", "field_builtin_then_repeated"))}


def compatible_pairs(names):
    import itertools
    return [(a, b) for a, b in itertools.combinations(names, 2) if frozenset((a, b)) not in INCOMPATIBLE]


MULTI_FILES = {
    "p/enums.proto": 'syntax = "proto3";\npackage p;\n// enums only\nenum E1 { E1_ZERO = 0; E1_ONE = 1; }\nenum E2 { E2_ZERO = 0; E2_NEG = -1; }\n',
    "p/msgs.proto": ('syntax = "proto3";\npackage p;\nimport "p/enums.proto";\nimport "p/other.proto";\nimport "q/only_enum.proto";\n'
                     'message M1 { E1 e = 1; M2 m2 = 2; q.QEnum qe = 3; repeated E2 e2s = 4; map<string, M2> by = 5;\n'
                     '  oneof pick { M2 pm = 6; q.QEnum pq = 7; } message In { E2 x = 1; } In inner = 8; }\n'),
    "p/other.proto": ('syntax = "proto3";\npackage p;\nmessage M2 { int32 a = 1; }\n'
                      'service S1 { rpc A (M2) returns (M2); }\n'
                      'service S2 { rpc B (M2) returns (stream M2); rpc C (stream M2) returns (M2); rpc D (M2) returns (M2); rpc E (stream M2) returns (stream M2); }\n'),
    "q/only_enum.proto": 'syntax = "proto3";\npackage q;\nenum QEnum { Q_ZERO = 0; Q_ONE = 1; }\n',
    "p/r/nested.proto": ('syntax = "proto3";\npackage p.r;\nimport "p/other.proto";\nimport "p/msgs.proto";\nimport "p/enums.proto";\n'
                         'message R { p.M2 up = 1; optional p.M1 opt_up = 2; p.M1.In deep = 3; optional p.E2 oe = 4; map<int32, p.E1> em = 5; }\n'
                         'service S3 { rpc Up (p.M2) returns (p.M1); }\n'),
}
MULTI_PACKAGES = ["p", "q", "p.r"]
