"""Schema model with three back-ends.

  * ``render_bp_source`` / ``build_bp``  - "direct" back-end: betterproto dataclasses
    built with the public field API (source text exec'd in a synthetic module, the
    same shape the plugin emits).
  * ``render_proto``                     - .proto text for the real plugin / protoc.
  * ``build_ref``                        - google.protobuf classes from a
    FileDescriptorProto built programmatically (private DescriptorPool).

The model is deliberately boring: plain dataclasses, no behaviour.
"""
from __future__ import annotations

import dataclasses
import sys
import types
from dataclasses import dataclass, field
from typing import Dict, List, Optional, Tuple

SCALARS = [
    "double", "float", "int32", "int64", "uint32", "uint64", "sint32", "sint64",
    "fixed32", "fixed64", "sfixed32", "sfixed64", "bool", "string", "bytes",
]
WRAPPERS = {
    "double": "DoubleValue", "float": "FloatValue", "int32": "Int32Value",
    "int64": "Int64Value", "uint32": "UInt32Value", "uint64": "UInt64Value",
    "bool": "BoolValue", "string": "StringValue", "bytes": "BytesValue",
}
MAP_KEY_KINDS = [
    "int32", "int64", "uint32", "uint64", "sint32", "sint64", "fixed32", "fixed64",
    "sfixed32", "sfixed64", "bool", "string",
]
PACKABLE = [k for k in SCALARS if k not in ("string", "bytes")] + ["enum"]

PY_SCALAR = {
    "double": "float", "float": "float", "bool": "bool", "string": "str",
    "bytes": "bytes",
}


def base_kind(kind: str) -> str:
    """'enum:Color' -> 'enum', 'msg:Sub' -> 'msg', 'wrap:int32' -> 'wrap'."""
    return kind.split(":", 1)[0]


def kind_arg(kind: str) -> str:
    return kind.split(":", 1)[1] if ":" in kind else ""


@dataclass(frozen=True)
class Field:
    name: str
    number: int
    kind: str  # scalar | enum:<E> | msg:<M> | timestamp | duration | wrap:<scalar>
    card: str = "single"  # single | optional | repeated | map | oneof
    group: Optional[str] = None  # oneof name when card == 'oneof'
    key: Optional[str] = None  # key kind when card == 'map'
    proto_name: Optional[str] = None  # name in the .proto / descriptor when it differs from the Python name
    opt_member: bool = False  # oneof member declared with optional=True as well (the plugin's pydantic style)

    @property
    def pname(self) -> str:
        return self.proto_name or self.name

    @property
    def base(self) -> str:
        return base_kind(self.kind)

    @property
    def is_message_like(self) -> bool:
        return self.base in ("msg", "timestamp", "duration", "wrap")


@dataclass(frozen=True)
class Msg:
    name: str
    fields: Tuple[Field, ...]

    def field(self, name: str) -> Field:
        for f in self.fields:
            if f.name == name:
                return f
        raise KeyError(name)

    @property
    def groups(self) -> Dict[str, List[Field]]:
        out: Dict[str, List[Field]] = {}
        for f in self.fields:
            if f.card == "oneof":
                out.setdefault(f.group, []).append(f)
        return out


@dataclass(frozen=True)
class EnumDef:
    name: str
    members: Tuple[Tuple[str, int], ...]

    @property
    def numbers(self):
        return [n for _, n in self.members]


@dataclass(frozen=True)
class Schema:
    package: str
    enums: Tuple[EnumDef, ...] = ()
    msgs: Tuple[Msg, ...] = ()

    def msg(self, name: str) -> Msg:
        for m in self.msgs:
            if m.name == name:
                return m
        raise KeyError(name)

    def enum(self, name: str) -> EnumDef:
        for e in self.enums:
            if e.name == name:
                return e
        raise KeyError(name)


# ---------------------------------------------------------------------------
# direct back-end: betterproto classes through the public field API


def _py_elem_type(f_kind: str) -> str:
    b = base_kind(f_kind)
    if b in PY_SCALAR:
        return PY_SCALAR[b]
    if b in SCALARS:
        return "int"
    if b == "enum" or b == "msg":
        return f'"{kind_arg(f_kind)}"'
    if b == "timestamp":
        return "datetime"
    if b == "duration":
        return "timedelta"
    if b == "wrap":
        inner = kind_arg(f_kind)
        return f"Optional[{PY_SCALAR.get(inner, 'int')}]"
    raise ValueError(f_kind)


def _bp_type_const(kind: str) -> str:
    b = base_kind(kind)
    if b in SCALARS:
        return f"betterproto.TYPE_{b.upper()}"
    if b == "enum":
        return "betterproto.TYPE_ENUM"
    return "betterproto.TYPE_MESSAGE"


def _pep604(ann: str) -> str:
    """The annotation as the plugin writes it under typing.310: builtin generics and ``X | None``,
    the whole annotation one string (forward references)."""
    import re
    a = ann.replace('"', "")
    a = a.replace("List[", "list[").replace("Dict[", "dict[")
    while "Optional[" in a:
        a = re.sub(r"Optional\[([^\[\]]*)\]", r"\1 | None", a)
    return f'"{a}"'


def _field_source(f: Field, style: str = "typing") -> str:
    src = _field_source_typing(f)
    if style == "pep604":
        head, rest = src.split(" = ", 1)
        name, ann = head.split(": ", 1)
        return f"{name}: {_pep604(ann)} = {rest}"
    return src


def _field_source_typing(f: Field) -> str:
    b = f.base
    elem = _py_elem_type(f.kind)
    if f.card == "map":
        ann = f"Dict[{_py_elem_type(f.key)}, {elem}]"
        return (
            f"    {f.name}: {ann} = betterproto.map_field({f.number}, "
            f"{_bp_type_const(f.key)}, {_bp_type_const(f.kind)})"
        )
    if b in SCALARS:
        fn = f"{b}_field"
    elif b == "enum":
        fn = "enum_field"
    else:
        fn = "message_field"
    args = [str(f.number)]
    if b == "wrap":
        args.append(f"wraps=betterproto.TYPE_{kind_arg(f.kind).upper()}")
    if f.card == "optional":
        args.append("optional=True")
    if f.card == "oneof":
        args.append(f'group="{f.group}"')
        if f.opt_member:
            args.append("optional=True")
    if f.card == "repeated":
        ann = f"List[{elem}]"
    elif (f.card == "optional" or (f.card == "oneof" and f.opt_member)) and b != "wrap":
        ann = f"Optional[{elem}]"
    else:
        ann = elem
    return f"    {f.name}: {ann} = betterproto.{fn}({', '.join(args)})"


def render_bp_source(schema: Schema, style: str = "typing") -> str:
    out = [
        "from dataclasses import dataclass",
        "from datetime import datetime, timedelta",
        "from typing import Dict, List, Optional",
        "import betterproto",
        "",
    ]
    for e in schema.enums:
        out.append(f"class {e.name}(betterproto.Enum):")
        for n, v in e.members:
            out.append(f"    {n} = {v}")
        out.append("")
    for m in schema.msgs:
        out.append("@dataclass(eq=False, repr=False)")
        out.append(f"class {m.name}(betterproto.Message):")
        if not m.fields:
            out.append("    pass")
        for f in m.fields:
            out.append(_field_source(f, style))
        out.append("")
    return "\n".join(out)


_counter = [0]


def build_bp(schema: Schema, modname: Optional[str] = None, style: str = "typing"):
    """Exec the rendered source in a fresh synthetic module and return it.  style='pep604' writes
    the annotations the way the plugin does under typing.310 (``"X | None"``, ``"list[X]"``)."""
    if modname is None:
        _counter[0] += 1
        modname = f"vf_synth_{_counter[0]}"
    mod = types.ModuleType(modname)
    sys.modules[modname] = mod
    src = render_bp_source(schema, style)
    mod.__dict__["__vf_source__"] = src
    exec(compile(src, f"<{modname}>", "exec"), mod.__dict__)
    return mod


# ---------------------------------------------------------------------------
# .proto text


def _proto_type(kind: str, schema_pkg: str) -> str:
    b = base_kind(kind)
    if b in SCALARS:
        return b
    if b in ("enum", "msg"):
        return kind_arg(kind)
    if b == "timestamp":
        return "google.protobuf.Timestamp"
    if b == "duration":
        return "google.protobuf.Duration"
    if b == "wrap":
        return "google.protobuf." + WRAPPERS[kind_arg(kind)]
    raise ValueError(kind)


def render_proto(schema: Schema) -> str:
    out = ['syntax = "proto3";']
    if schema.package:
        out.append(f"package {schema.package};")
    kinds = {base_kind(f.kind) for m in schema.msgs for f in m.fields}
    if "timestamp" in kinds:
        out.append('import "google/protobuf/timestamp.proto";')
    if "duration" in kinds:
        out.append('import "google/protobuf/duration.proto";')
    if "wrap" in kinds:
        out.append('import "google/protobuf/wrappers.proto";')
    for e in schema.enums:
        out.append(f"enum {e.name} {{")
        if len(set(e.numbers)) != len(e.numbers):
            out.append("  option allow_alias = true;")
        for n, v in e.members:
            out.append(f"  {n} = {v};")
        out.append("}")
    for m in schema.msgs:
        out.append(f"message {m.name} {{")
        done_groups = set()
        for f in m.fields:
            t = _proto_type(f.kind, schema.package)
            if f.card == "oneof":
                if f.group in done_groups:
                    continue
                done_groups.add(f.group)
                out.append(f"  oneof {f.group} {{")
                for g in m.fields:
                    if g.card == "oneof" and g.group == f.group:
                        out.append(
                            f"    {_proto_type(g.kind, schema.package)} {g.pname} = {g.number};"
                        )
                out.append("  }")
            elif f.card == "map":
                out.append(f"  map<{f.key}, {t}> {f.pname} = {f.number};")
            elif f.card == "repeated":
                out.append(f"  repeated {t} {f.pname} = {f.number};")
            elif f.card == "optional":
                out.append(f"  optional {t} {f.pname} = {f.number};")
            else:
                out.append(f"  {t} {f.pname} = {f.number};")
        out.append("}")
    return "\n".join(out) + "\n"


# ---------------------------------------------------------------------------
# reference back-end (google.protobuf, private pool)

_FDP_TYPES = None


def _fdp_type(kind: str):
    from google.protobuf import descriptor_pb2 as d

    F = d.FieldDescriptorProto
    b = base_kind(kind)
    table = {
        "double": F.TYPE_DOUBLE, "float": F.TYPE_FLOAT, "int32": F.TYPE_INT32,
        "int64": F.TYPE_INT64, "uint32": F.TYPE_UINT32, "uint64": F.TYPE_UINT64,
        "sint32": F.TYPE_SINT32, "sint64": F.TYPE_SINT64, "fixed32": F.TYPE_FIXED32,
        "fixed64": F.TYPE_FIXED64, "sfixed32": F.TYPE_SFIXED32,
        "sfixed64": F.TYPE_SFIXED64, "bool": F.TYPE_BOOL, "string": F.TYPE_STRING,
        "bytes": F.TYPE_BYTES, "enum": F.TYPE_ENUM,
    }
    return table.get(b, F.TYPE_MESSAGE)


def _fdp_type_name(kind: str, pkg: str) -> str:
    b = base_kind(kind)
    prefix = f".{pkg}." if pkg else "."
    if b in ("enum", "msg"):
        return prefix + kind_arg(kind)
    if b == "timestamp":
        return ".google.protobuf.Timestamp"
    if b == "duration":
        return ".google.protobuf.Duration"
    if b == "wrap":
        return ".google.protobuf." + WRAPPERS[kind_arg(kind)]
    return ""


def _camel(name: str) -> str:
    # protoc's ToJsonName: drop underscores, capitalise the following letter
    out = []
    up = False
    for ch in name:
        if ch == "_":
            up = True
        elif up:
            out.append(ch.upper())
            up = False
        else:
            out.append(ch)
    return "".join(out)


def to_file_descriptor_proto(schema: Schema, filename: Optional[str] = None):
    from google.protobuf import descriptor_pb2 as d

    F = d.FieldDescriptorProto
    fdp = d.FileDescriptorProto()
    fdp.name = filename or (schema.package.replace(".", "/") or "root") + ".proto"
    fdp.syntax = "proto3"
    if schema.package:
        fdp.package = schema.package
    kinds = {base_kind(f.kind) for m in schema.msgs for f in m.fields}
    if "timestamp" in kinds:
        fdp.dependency.append("google/protobuf/timestamp.proto")
    if "duration" in kinds:
        fdp.dependency.append("google/protobuf/duration.proto")
    if "wrap" in kinds:
        fdp.dependency.append("google/protobuf/wrappers.proto")
    for e in schema.enums:
        ed = fdp.enum_type.add()
        ed.name = e.name
        if len(set(e.numbers)) != len(e.numbers):
            ed.options.allow_alias = True
        for n, v in e.members:
            ev = ed.value.add()
            ev.name = n
            ev.number = v
    for m in schema.msgs:
        md = fdp.message_type.add()
        md.name = m.name
        group_index: Dict[str, int] = {}
        # real oneofs first (protoc puts synthetic oneofs last)
        for f in m.fields:
            if f.card == "oneof" and f.group not in group_index:
                group_index[f.group] = len(md.oneof_decl)
                md.oneof_decl.add().name = f.group
        for f in m.fields:
            fd = md.field.add()
            fd.name = f.pname
            fd.number = f.number
            fd.json_name = _camel(f.pname)
            if f.card == "map":
                entry = md.nested_type.add()
                entry.name = _camel("_" + f.pname) + "Entry"
                entry.options.map_entry = True
                k = entry.field.add()
                k.name, k.number, k.label, k.type = "key", 1, F.LABEL_OPTIONAL, _fdp_type(f.key)
                k.json_name = "key"
                v = entry.field.add()
                v.name, v.number, v.label, v.type = "value", 2, F.LABEL_OPTIONAL, _fdp_type(f.kind)
                v.json_name = "value"
                tn = _fdp_type_name(f.kind, schema.package)
                if tn:
                    v.type_name = tn
                fd.label = F.LABEL_REPEATED
                fd.type = F.TYPE_MESSAGE
                prefix = f".{schema.package}." if schema.package else "."
                fd.type_name = f"{prefix}{m.name}.{entry.name}"
                continue
            fd.type = _fdp_type(f.kind)
            tn = _fdp_type_name(f.kind, schema.package)
            if tn:
                fd.type_name = tn
            fd.label = F.LABEL_REPEATED if f.card == "repeated" else F.LABEL_OPTIONAL
            if f.card == "oneof":
                fd.oneof_index = group_index[f.group]
            if f.card == "optional":
                fd.proto3_optional = True
                fd.oneof_index = len(md.oneof_decl)
                md.oneof_decl.add().name = "_" + f.pname
    return fdp


def new_ref_pool():
    from google.protobuf import descriptor_pb2 as d
    from google.protobuf import descriptor_pool
    from google.protobuf import (  # noqa: F401
        duration_pb2, empty_pb2, timestamp_pb2, wrappers_pb2,
    )

    pool = descriptor_pool.DescriptorPool()
    for mod in (timestamp_pb2, duration_pb2, wrappers_pb2, empty_pb2):
        pool.AddSerializedFile(mod.DESCRIPTOR.serialized_pb)
    return pool


class RefNS:
    """Namespace of reference classes for one schema."""

    def __init__(self, pool, schema: Schema):
        from google.protobuf import message_factory

        self.pool = pool
        self.schema = schema
        self._mf = message_factory
        self._cache: Dict[str, type] = {}

    def cls(self, name: str):
        c = self._cache.get(name)
        if c is None:
            full = f"{self.schema.package}.{name}" if self.schema.package else name
            c = self._mf.GetMessageClass(self.pool.FindMessageTypeByName(full))
            self._cache[name] = c
        return c


def build_ref(schema: Schema, pool=None, filename: Optional[str] = None) -> RefNS:
    pool = pool or new_ref_pool()
    fdp = to_file_descriptor_proto(schema, filename)
    pool.AddSerializedFile(fdp.SerializeToString())
    return RefNS(pool, schema)
